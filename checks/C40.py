"""C40 — RPC request/response extras are transmitted unchanged (DESIGN.md §4 C40)."""
import os

from vlib.core import hx, ROOT

MODULES = ["TLVerif.Props.C40"]
THEOREMS = ["TLVerif.Props.C40." + t for t in [
    "request_tags_distinct", "result_tags_distinct", "tag_values", "layouts_as_modelled", "primitives_as_modelled", "limits_and_codes",
    "reqextra_roundtrip", "resextra_roundtrip", "reqextra_roundtrip_consistent", "reqextra_wf_of_short", "resextra_wf_of_short",
    "map_representation_canonical",
    "request_roundtrip", "request_extras_unchanged", "prepare_shape", "request_timeout",
    "response_roundtrip", "response_flags_subset", "response_extras_unchanged", "error_roundtrip", "error_codes",
    "error_code_preserved", "error_code_zero_is_unknown", "no_result_no_answer",
    "exchange_ok", "exchange_err", "forward_hop", "loops_never_run_out_of_fuel", "readers_consume",
    "body_tag_hypothesis_needed", "result_tag_hypothesis_needed",
]]

M32 = 2**32
M64 = 2**64
T_DEST_ACTOR = 0x7568aabd
T_DEST_FLAGS = 0xe352035e
T_DEST_ACTOR_FLAGS = 0xf0a5acf7
T_TL2 = 0x30324c54
T_RESULT_HEADER = 0x8cc84ce1
T_REQ_ERROR = 0xb527877d
T_RESULT_ERROR = 0x7ae432f5
T_RESULT_ERROR_WRAPPED = 0x7ae432f6
REQ_WRAPPERS = {T_DEST_ACTOR, T_DEST_FLAGS, T_DEST_ACTOR_FLAGS, T_TL2}
RESP_MAGIC = {T_RESULT_HEADER, T_REQ_ERROR, T_RESULT_ERROR, T_RESULT_ERROR_WRAPPED}
ERR_UNKNOWN = (-4000) % M32
ERR_NO_HANDLER = (-2000) % M32

REQ_VALUE_BITS = [9, 15, 16, 18, 19, 20, 21, 23, 25, 26, 28, 29, 30]
REQ_TRUE_BITS = [0, 1, 2, 3, 4, 6, 7, 8, 14, 27]
RES_VALUE_BITS = [0, 1, 2, 3, 4, 5, 6, 14, 27]


def bit(f, i):
    return (f >> i) & 1 == 1


def sx(b):
    return "x" + b.hex()


def slist(xs):
    return ",".join(xs) if xs else "-"


class Gen:
    def __init__(self, rng, thorough):
        self.r = rng
        self.thorough = thorough

    def u64(self):
        r = self.r
        k = r.below(10)
        if k < 4:
            return r.choice([0, 1, 2, 255, 256, 2**31 - 1, 2**31, 2**32 - 1, 2**32, 2**63 - 1, 2**63, 2**64 - 1, 2**64 - 2])
        if k < 6:
            return r.below(1000)
        return r.below(M64)

    def u32(self):
        r = self.r
        k = r.below(10)
        if k < 4:
            return r.choice([0, 1, 2, 255, 256, 65535, 65536, 2**31 - 1, 2**31, 2**31 + 1, 2**32 - 1, 2**32 - 2])
        if k < 6:
            return r.below(100000)
        return r.below(M32)

    def s(self, small=False):
        r = self.r
        k = r.below(20)
        if k < 8 or small:
            n = r.below(9)
        elif k < 14:
            n = r.choice([0, 1, 2, 3, 4, 5, 7, 8, 252, 253, 254, 255, 256, 257, 258, 259, 260])
        elif k < 19:
            n = r.below(600)
        else:
            n = r.choice([65535, 65536, 70001]) if self.thorough else r.below(3000)
        kind = r.below(5)
        if kind == 0:
            return bytes(n)
        if kind == 1:
            return bytes([r.choice([0x61, 0xff, 0x2c, 0x3a])]) * n
        return r.bytes(n)

    def key(self):
        r = self.r
        k = r.below(8)
        if k == 0:
            return b""
        if k < 4:
            return bytes(r.choice([0x61, 0x62, 0x00, 0xff]) for _ in range(r.below(4)))
        return self.s(small=r.chance(3, 4))

    def dict(self, val):
        r = self.r
        n = r.choice([0, 0, 1, 1, 2, 3, 4, 5, 9]) if not r.chance(1, 40) else r.range(10, 40)
        ents = []
        for _ in range(n):
            if ents and r.chance(1, 6):
                k = r.choice(ents)[0]  # duplicate key: the later entry wins
            else:
                k = self.key()
            ents.append((k, val()))
        return ents

    def flags(self, value_bits, all_bits_known):
        r = self.r
        k = r.below(12)
        if k == 0:
            return 0
        if k == 1:
            return 1 << r.below(32)
        if k == 2:
            return r.below(M32)
        if k == 3:
            return M32 - 1
        if k == 4:
            f = 0
            for b in all_bits_known:
                f |= 1 << b
            return f
        f = 0
        for b in all_bits_known:
            if r.chance(1, 3):
                f |= 1 << b
        if r.chance(1, 8):
            f |= 1 << r.choice([5, 10, 11, 12, 13, 17, 22, 24, 31])
        return f

    def pq(self):
        r = self.r
        if r.chance(1, 2):
            return ("p", self.u64(), self.u64())
        return ("c", self.u64(), self.u64(), self.u64(), self.u64())

    def tc(self):
        r = self.r
        m = r.choice([0, 4, 8, 12, 0xff, 0xf3, r.below(256), r.below(M32)])
        return (m, self.u64(), self.u64(), self.u64(), self.s(small=r.chance(2, 3)))

    def reqextra(self, flags=None, consistent=None):
        r = self.r
        f = self.flags(REQ_VALUE_BITS, REQ_VALUE_BITS + REQ_TRUE_BITS) if flags is None else flags
        cons = r.chance(3, 5) if consistent is None else consistent

        def on(b):
            return bit(f, b) or (not cons and r.chance(1, 2))
        e = {"flags": f,
             "rid": self.u64() if on(9) else 0,
             "wsbp": self.dict(self.u64) if on(15) else [],
             "wbp": self.u64() if on(16) else 0,
             "sfk": [self.s(small=r.chance(2, 3)) for _ in range(r.choice([0, 1, 1, 2, 3, 7]))] if on(18) else [],
             "ifk": [self.u64() for _ in range(r.choice([0, 1, 1, 2, 3, 7]))] if on(19) else [],
             "sf": self.s() if on(20) else b"",
             "if": self.u64() if on(21) else 0,
             "ct": self.u32() if on(23) else 0,
             "scv": self.u32() if on(25) else 0,
             "rd": r.choice([0, 2**63, 0x7ff8000000000001, 0x7ff0000000000000, 0x3ff0000000000000, r.below(M64)]) if on(26) else 0,
             "pq": self.pq() if on(28) else ("p", 0, 0),
             "tc": self.tc() if on(29) else (0, 0, 0, 0, b""),
             "ec": self.s() if on(30) else b""}
        if not cons and bit(f, 29) and r.chance(1, 2):
            m, lo, hi, p, s = e["tc"]
            e["tc"] = (m, lo, hi, self.u64(), self.s(small=True))
        return e

    def resextra(self, flags=None, consistent=None):
        r = self.r
        f = self.flags(RES_VALUE_BITS, RES_VALUE_BITS) if flags is None else flags
        cons = r.chance(3, 5) if consistent is None else consistent

        def on(b):
            return bit(f, b) or (not cons and r.chance(1, 2))
        return {"flags": f,
                "bp": self.u64() if on(0) else 0,
                "bt": self.u64() if on(1) else 0,
                "pid": (self.u32(), self.u32(), self.u32()) if on(2) else (0, 0, 0),
                "rqs": self.u32() if on(3) else 0,
                "rss": self.u32() if on(3) else 0,
                "fs": self.u32() if on(4) else 0,
                "cv": self.u32() if on(5) else 0,
                "stats": self.dict(lambda: self.s(small=r.chance(2, 3))) if on(6) else [],
                "sbp": self.dict(self.u64) if on(14) else [],
                "en": self.u64() if on(27) else 0,
                "vn": self.u64() if on(27) else 0}

    def body(self, avoid, tl2):
        """user body; mostly valid (>= 4 bytes, first word not one of `avoid`)"""
        r = self.r
        k = r.below(30)
        if k == 0:
            return r.bytes(r.below(4))  # too short to carry a tag
        if k == 1:
            return r.choice(sorted(avoid)).to_bytes(4, "little") + r.bytes(r.below(24))
        n = r.choice([4, 4, 5, 8, 12, 16, 40, r.range(4, 300)])
        b = r.bytes(n)
        if int.from_bytes(b[:4], "little") in avoid and k != 2:
            b = bytes([b[0] ^ 1]) + b[1:]
        return b


def dict_norm(ents):
    m = {}
    for k, v in ents:
        m[k] = v
    return sorted(m.items())


def w_reqextra(e):
    return " ".join([
        str(e["flags"]), str(e["rid"]), slist([sx(k) + ":" + str(v) for k, v in e["wsbp"]]), str(e["wbp"]),
        slist([sx(s) for s in e["sfk"]]), slist([str(v) for v in e["ifk"]]), sx(e["sf"]), str(e["if"]), str(e["ct"]),
        str(e["scv"]), str(e["rd"]), ":".join(str(x) for x in e["pq"]),
        ":".join([str(e["tc"][0]), str(e["tc"][1]), str(e["tc"][2]), str(e["tc"][3]), sx(e["tc"][4])]), sx(e["ec"])])


def w_resextra(e):
    return " ".join([
        str(e["flags"]), str(e["bp"]), str(e["bt"]), "%d:%d:%d" % e["pid"], str(e["rqs"]), str(e["rss"]), str(e["fs"]),
        str(e["cv"]), slist([sx(k) + ":" + sx(v) for k, v in e["stats"]]), slist([sx(k) + ":" + str(v) for k, v in e["sbp"]]),
        str(e["en"]), str(e["vn"])])


def norm_reqextra(e):
    """what the receiver must see: independent statement of the property (field present iff bit set)"""
    f = e["flags"]
    tc = e["tc"]
    if bit(f, 29):
        tc = (tc[0], tc[1], tc[2], tc[3] if bit(tc[0], 2) else 0, tc[4] if bit(tc[0], 3) else b"")
    else:
        tc = (0, 0, 0, 0, b"")
    return {"flags": f,
            "rid": e["rid"] if bit(f, 9) else 0,
            "wsbp": dict_norm(e["wsbp"]) if bit(f, 15) else [],
            "wbp": e["wbp"] if bit(f, 16) else 0,
            "sfk": e["sfk"] if bit(f, 18) else [],
            "ifk": e["ifk"] if bit(f, 19) else [],
            "sf": e["sf"] if bit(f, 20) else b"",
            "if": e["if"] if bit(f, 21) else 0,
            "ct": e["ct"] if bit(f, 23) else 0,
            "scv": e["scv"] if bit(f, 25) else 0,
            "rd": e["rd"] if bit(f, 26) else 0,
            "pq": e["pq"] if bit(f, 28) else ("p", 0, 0),
            "tc": tc,
            "ec": e["ec"] if bit(f, 30) else b""}


def norm_resextra(e, reqflags):
    f = e["flags"] & reqflags
    return {"flags": f,
            "bp": e["bp"] if bit(f, 0) else 0,
            "bt": e["bt"] if bit(f, 1) else 0,
            "pid": e["pid"] if bit(f, 2) else (0, 0, 0),
            "rqs": e["rqs"] if bit(f, 3) else 0,
            "rss": e["rss"] if bit(f, 3) else 0,
            "fs": e["fs"] if bit(f, 4) else 0,
            "cv": e["cv"] if bit(f, 5) else 0,
            "stats": dict_norm(e["stats"]) if bit(f, 6) else [],
            "sbp": dict_norm(e["sbp"]) if bit(f, 14) else [],
            "en": e["en"] if bit(f, 27) else 0,
            "vn": e["vn"] if bit(f, 27) else 0}


def px(w):
    assert w[0] == "x"
    return bytes.fromhex(w[1:])


def plist(w):
    return [] if w == "-" else w.split(",")


def p_reqextra(w):
    pq = w[11].split(":")
    tc = w[12].split(":")
    return {"flags": int(w[0]), "rid": int(w[1]),
            "wsbp": [(px(x.split(":")[0]), int(x.split(":")[1])) for x in plist(w[2])], "wbp": int(w[3]),
            "sfk": [px(x) for x in plist(w[4])], "ifk": [int(x) for x in plist(w[5])], "sf": px(w[6]), "if": int(w[7]),
            "ct": int(w[8]), "scv": int(w[9]), "rd": int(w[10]), "pq": tuple([pq[0]] + [int(x) for x in pq[1:]]),
            "tc": (int(tc[0]), int(tc[1]), int(tc[2]), int(tc[3]), px(tc[4])), "ec": px(w[13])}


def p_resextra(w):
    return {"flags": int(w[0]), "bp": int(w[1]), "bt": int(w[2]), "pid": tuple(int(x) for x in w[3].split(":")),
            "rqs": int(w[4]), "rss": int(w[5]), "fs": int(w[6]), "cv": int(w[7]),
            "stats": [(px(x.split(":")[0]), px(x.split(":")[1])) for x in plist(w[8])],
            "sbp": [(px(x.split(":")[0]), int(x.split(":")[1])) for x in plist(w[9])], "en": int(w[10]), "vn": int(w[11])}


def p_err(w):
    if w == "-":
        return None
    p = w.split(":")
    if p[0] == "n":
        return ("n",)
    if p[0] == "o":
        return ("o", px(p[1]))
    return (p[0], int(p[1]), px(p[2]))


def parse_case(l):
    """the structured content of a case line (so that replayed lines get the same oracle as generated ones)"""
    f = l.split(" ")
    try:
        if f[0] in ("rpcextra.req", "rpcextra.fwd") and len(f) == 19:
            return (int(f[1]), int(f[2]), f[3] == "1", unhex(f[4]), p_reqextra(f[5:]))
        if f[0] == "rpcextra.resp" and len(f) == 20:
            return (int(f[1]), int(f[2]), f[3] == "1", f[4] == "1", int(f[5]), p_err(f[6]), unhex(f[7]), p_resextra(f[8:]))
        if f[0] in ("rpcextra.e2e", "rpcextra.e2el") and len(f) == 32:
            return (int(f[1]), f[2] == "1", unhex(f[3]), p_reqextra(f[4:18]), p_err(f[18]), unhex(f[19]), p_resextra(f[20:]))
    except (ValueError, IndexError, AssertionError):
        return None
    return None


def req_line(q, actor, tl2, body, e):
    return "rpcextra.req %d %d %d %s %s" % (q, actor, 1 if tl2 else 0, hx(body), w_reqextra(e))


def err_word(err):
    if err is None:
        return "-"
    if err[0] == "n":
        return "n"
    if err[0] in ("e", "w"):
        return "%s:%d:%s" % (err[0], err[1], sx(err[2]))
    return "o:" + sx(err[1])


def resp_line(q, reqflags, tl2, nores, tag, err, body, e):
    return "rpcextra.resp %d %d %d %d %d %s %s %s" % (q, reqflags, 1 if tl2 else 0, 1 if nores else 0, tag, err_word(err), hx(body), w_resextra(e))


def unhex(s):
    return b"" if s == "-" else bytes.fromhex(s)


def first_word(b):
    return int.from_bytes(b[:4], "little") if len(b) >= 4 else None


def mutations(rng, wire, n):
    """malformed stream derived from a valid packet body"""
    out = []
    for _ in range(n):
        k = rng.below(6)
        b = bytearray(wire)
        if k == 0 and b:
            out.append(bytes(b[:rng.below(len(b))]))
        elif k == 1 and b:
            i = rng.below(len(b))
            b[i] ^= 1 << rng.below(8)
            out.append(bytes(b))
        elif k == 2 and len(b) > 8:
            i = 8 + 4 * rng.below(max(1, (len(b) - 8) // 4))
            t = rng.choice([T_DEST_ACTOR, T_DEST_FLAGS, T_DEST_ACTOR_FLAGS, T_TL2, T_RESULT_HEADER, T_REQ_ERROR, T_RESULT_ERROR,
                            T_RESULT_ERROR_WRAPPED]).to_bytes(4, "little")
            out.append(bytes(b[:i]) + t + bytes(b[i:]))
        elif k == 3 and len(b) > 12:
            # duplicate the wrapper area
            j = rng.range(12, len(b))
            out.append(bytes(b[:j]) + bytes(b[8:j]) + bytes(b[j:]))
        elif k == 4 and b:
            i = rng.below(len(b))
            out.append(bytes(b[:i]) + rng.bytes(rng.range(1, 8)) + bytes(b[i:]))
        elif b:
            i = rng.below(len(b))
            j = min(len(b), i + rng.range(1, 8))
            out.append(bytes(b[:i]) + bytes(b[j:]))
    return out


def run(c):
    c.facts(["Rpcextra", "Prim"])
    c.lean(MODULES, THEOREMS, sources=["TLVerif.Rpcextra.Wire", "TLVerif.Rpcextra.Extras", "TLVerif.Rpcextra.Format",
                                      "TLVerif.Rpcextra.WireLemmas", "TLVerif.Rpcextra.ExtrasLemmas", "TLVerif.Rpcextra.FormatLemmas",
                                      "TLVerif.Rpcextra.FuelLemmas", "TLVerif.Rpcextra.Driver"])
    model = c.model_exe()
    ov = os.path.join(ROOT, "go", "hrpcextra", "overlay", "verif_rpcextra.go")
    impl = c.harness("hrpcextra", overlays={"pkg/rpc/verif_rpcextra.go": ov})
    rng = c.rng
    g = Gen(rng, c.thorough)
    c.trusted += ["go/hrpcextra harness + in-package overlay pkg/rpc/verif_rpcextra.go (build tag verif); factgen extraction of tags, "
                  "limits and TL1 field layouts",
                  "modelled, not verified: Go slices/append/maps (map[string]T as key-sorted association list), encoding/binary, "
                  "errors.As/Is classification of handler errors"]
    replay_lines = []
    if c.replay:
        for f in c.replay.get("failures", []):
            if f.get("input"):
                replay_lines.append(f["input"])
        for t in c.replay.get("broken_ties", []):
            replay_lines.append(t["line"])

    # ------------------------------------------------------------ phase 1: requests
    N = 1 if c.thorough else 0
    lines = [l for l in replay_lines if l.startswith("rpcextra.req ") or l.startswith("rpcextra.fwd ")]

    def add_req(q, actor, tl2, body, e):
        lines.append(req_line(q, actor, tl2, body, e))

    # every combination of the 13 value-carrying mask bits (x both body formats in thorough)
    for m in range(1 << len(REQ_VALUE_BITS)):
        if not c.thorough and m % 4 != rng.below(4) and bin(m).count("1") not in (0, 1, 2, 12, 13):
            continue
        f = 0
        for i, b in enumerate(REQ_VALUE_BITS):
            if (m >> i) & 1:
                f |= 1 << b
        if rng.chance(1, 3):
            for b in REQ_TRUE_BITS:
                if rng.chance(1, 3):
                    f |= 1 << b
        for tl2 in ([False, True] if c.thorough else [rng.chance(1, 2)]):
            add_req(g.u64(), rng.choice([0, g.u64()]), tl2, g.body(REQ_WRAPPERS, tl2), g.reqextra(flags=f, consistent=rng.chance(2, 3)))
    for _ in range(30000 if c.thorough else 5000):
        add_req(g.u64(), rng.choice([0, 0, 1, g.u64(), g.u64()]), rng.chance(1, 2), g.body(REQ_WRAPPERS, False), g.reqextra())
    # the same requests relayed once through HandlerContext.ForwardAndFlush (forward.go) before they reach the server
    lines += ["rpcextra.fwd" + l[len("rpcextra.req"):] for l in lines[:: (4 if c.thorough else 8)] if l.startswith("rpcextra.req ")]
    res1 = c.tie("requests", lines, impl, model)

    parse_lines = [l for l in replay_lines if l.split(" ")[0] in ("rpcextra.parse", "rpcextra.rparse", "rpcextra.xread", "rpcextra.yread")]
    for l, a, _ in res1:
        m = parse_case(l)
        p = a.split(" ")
        if not m:
            continue
        q, actor, tl2, body, e = m
        if l.startswith("rpcextra.fwd "):
            # exploration of the proxy hop: extras, query id and body must survive; actor id and TL2 marker are not
            # forwarded by forward.go (modelled as such, theorem forward_hop) and are therefore not compared
            body_ok = len(body) >= 4 and first_word(body) not in REQ_WRAPPERS
            if p[0] == "ok" and body_ok:
                ne = norm_reqextra(e)
                if " ".join(p[9:]) != w_reqextra(ne) or int(p[1]) != q or unhex(p[8]) != body:
                    c.oracle_fail(l, "request relayed by ForwardAndFlush: extras, query id or body changed", l)
                if actor != 0 or tl2:
                    c.count("fwd:actor-or-tl2-marker-dropped")
            continue
        if a == "big":
            c.count("req:big")
            continue
        if p[0] != "ok" or len(p) < 4:
            c.oracle_fail(l, "preparePacket: unexpected result %s" % a[:80], l)
            continue
        buf = unhex(p[1])
        es = int(p[2])
        wire = buf[es:] + buf[:es]
        if rng.chance(1, 4):
            for mw in mutations(rng, wire, 3):
                parse_lines.append("rpcextra.parse " + hx(mw))
        body_ok = len(body) >= 4 and first_word(body) not in REQ_WRAPPERS
        if not body_ok:
            c.count("req:body-not-a-function-call")
            continue
        if buf[:es] != body:
            c.oracle_fail(l, "preparePacket does not keep the user body in front of the header", l)
        if p[3] != "ok":
            c.oracle_fail(l, "server rejects a request written by the client (%s)" % p[3], l)
            continue
        ne = norm_reqextra(e)
        ct = ne["ct"]
        to = str(ct) if 0 < ct < 2**31 else "d"
        exp = "ok %d %d %d %d %d %d %s %s %s" % (q, actor, 1 if tl2 else 0, first_word(body), 1 if bit(e["flags"], 7) else 0,
                                               e["flags"], to, hx(body), w_reqextra(ne))
        got = " ".join(p[3:])
        if got != exp:
            gp, ep = got.split(" "), exp.split(" ")
            names = ["status", "queryID", "actorID", "bodyFormatTL2", "reqTag", "noResult", "fieldsmask", "timeout", "Request",
                     "Flags", "RequesterId", "WaitShardsBinlogPos", "WaitBinlogPos", "StringForwardKeys", "IntForwardKeys", "StringForward",
                     "IntForward", "CustomTimeoutMs", "SupportedCompressionVersion", "RandomDelay", "PersistentQuery", "TraceContext",
                     "ExecutionContext"]
            diff = [names[i] for i in range(min(len(gp), len(ep), len(names))) if gp[i] != ep[i]]
            c.oracle_fail(l, "request does not arrive unchanged at the server: differs in %s" % ",".join(diff or ["length"]), l)

    # ------------------------------------------------------------ phase 2: responses
    lines2 = [l for l in replay_lines if l.startswith("rpcextra.resp ")]

    def add_resp(q, reqflags, tl2, nores, tag, err, body, e):
        lines2.append(resp_line(q, reqflags, tl2, nores, tag, err, body, e))

    def rand_err():
        k = rng.below(10)
        if k < 5:
            return None
        if k == 5:
            return ("n",)
        if k == 6:
            return ("o", g.s(small=rng.chance(1, 2)))
        code = rng.choice([0, 0, 1, M32 - 1, ERR_UNKNOWN, ERR_NO_HANDLER, g.u32()])
        return (rng.choice(["e", "e", "w"]), code, g.s(small=rng.chance(1, 2)))

    for m in range(1 << len(RES_VALUE_BITS)):
        f = 0
        for i, b in enumerate(RES_VALUE_BITS):
            if (m >> i) & 1:
                f |= 1 << b
        for tl2 in [False, True]:
            reqflags = rng.choice([M32 - 1, f, f, g.flags(RES_VALUE_BITS, RES_VALUE_BITS)])
            add_resp(g.u64(), reqflags, tl2, False, g.u32(), rand_err() if rng.chance(1, 3) else None, g.body(RESP_MAGIC, tl2),
                     g.resextra(flags=f, consistent=rng.chance(2, 3)))
    for _ in range(30000 if c.thorough else 5000):
        reqflags = rng.choice([M32 - 1, 0, g.flags(RES_VALUE_BITS, RES_VALUE_BITS), g.flags(RES_VALUE_BITS, RES_VALUE_BITS)])
        add_resp(g.u64(), reqflags, rng.chance(1, 2), rng.chance(1, 25), g.u32(), rand_err(), g.body(RESP_MAGIC, False), g.resextra())
    res2 = c.tie("responses", lines2, impl, model)

    for l, a, _ in res2:
        m = parse_case(l)
        if not m:
            continue
        q, reqflags, tl2, nores, tag, err, body, e = m
        p = a.split(" ")
        if nores:
            if a != "nores":
                c.oracle_fail(l, "noResult request produced %s" % a[:60], l)
            continue
        if a == "big":
            c.count("resp:big")
            continue
        if p[0] != "ok" or len(p) < 5:
            c.oracle_fail(l, "prepareResponseBody: unexpected result %s" % a[:80], l)
            continue
        buf = unhex(p[1])
        es = int(p[2])
        wire = buf[es:] + buf[:es]
        if rng.chance(1, 4):
            for mw in mutations(rng, wire, 3):
                parse_lines.append("rpcextra.rparse %d %s" % (rng.below(2), hx(mw)))
        fl = int(p[3])
        if fl & ~reqflags & (M32 - 1):
            c.oracle_fail(l, "response flags %d contain bits the client did not request (%d)" % (fl, reqflags), l)
        if fl != e["flags"] & reqflags:
            c.oracle_fail(l, "response flags are not handler flags & request flags", l)
        body_ok = tl2 or (len(body) >= 4 and first_word(body) not in RESP_MAGIC)
        if err is None and not body_ok:
            c.count("resp:tl1-body-collides-with-magic")
            continue
        if p[4] != "ok":
            c.oracle_fail(l, "client rejects a response written by the server (%s)" % p[4], l)
            continue
        ne = norm_resextra(e, reqflags)
        if err is None:
            outcome, rest = "ok", body
        else:
            rest = b""
            if err[0] == "n":
                outcome = "e:%d:%s" % (ERR_NO_HANDLER, sx(b"RPC handler for #%08x not found" % tag))
            elif err[0] == "o":
                outcome = "e:%d:%s" % (ERR_UNKNOWN, sx(err[1]))
            else:
                outcome = "e:%d:%s" % (err[1] if err[1] != 0 else ERR_UNKNOWN, sx(err[2]))
        exp = "ok %d %s %s %s" % (q, hx(rest), outcome, w_resextra(ne))
        got = " ".join(p[4:])
        if got != exp:
            gp, ep = got.split(" "), exp.split(" ")
            names = ["status", "queryID", "Body", "error", "Flags", "BinlogPos", "BinlogTime", "EnginePid", "RequestSize", "ResponseSize",
                     "FailedSubqueries", "CompressionVersion", "Stats", "ShardsBinlogPos", "EpochNumber", "ViewNumber"]
            diff = [names[i] for i in range(min(len(gp), len(ep), len(names))) if gp[i] != ep[i]]
            c.oracle_fail(l, "response does not arrive unchanged at the client: differs in %s" % ",".join(diff or ["length"]), l)

    # ------------------------------------------------------------ phase 3: malformed stream (tie only)
    for _ in range(4000 if c.thorough else 800):
        k = rng.below(4)
        if k == 0:
            parse_lines.append("rpcextra.parse " + hx(rng.bytes(rng.below(40))))
        elif k == 1:
            parse_lines.append("rpcextra.rparse %d %s" % (rng.below(2), hx(rng.bytes(rng.below(40)))))
        elif k == 2:
            # a chain of wrappers in random order
            b = rng.bytes(8)
            for _ in range(rng.below(5)):
                t = rng.choice([T_DEST_ACTOR, T_DEST_FLAGS, T_DEST_ACTOR_FLAGS, T_TL2])
                b += t.to_bytes(4, "little")
                if t == T_DEST_ACTOR:
                    b += rng.bytes(8)
                elif t == T_DEST_FLAGS:
                    b += rng.choice([0, 1, 128, 1 << 23]).to_bytes(4, "little") + (rng.bytes(4) if rng.chance(1, 2) else b"")
                elif t == T_DEST_ACTOR_FLAGS:
                    b += rng.bytes(8) + bytes(4)
            b += rng.bytes(rng.below(9))
            parse_lines.append("rpcextra.parse " + hx(b))
        else:
            b = rng.bytes(8)
            for _ in range(rng.below(4)):
                b += T_RESULT_HEADER.to_bytes(4, "little") + rng.choice([0, 1, 8, 16]).to_bytes(4, "little") + (rng.bytes(8) if rng.chance(1, 2) else b"")
            b += rng.choice([b"", rng.bytes(4), T_TL2.to_bytes(4, "little"), T_REQ_ERROR.to_bytes(4, "little") + rng.bytes(8),
                             T_RESULT_ERROR.to_bytes(4, "little") + rng.bytes(16), T_RESULT_ERROR_WRAPPED.to_bytes(4, "little") + rng.bytes(8)])
            parse_lines.append("rpcextra.rparse %d %s" % (rng.below(2), hx(b)))
    # raw extras readers on valid encodings, their mutations and random bytes
    for l, a, _ in res1[:: (3 if c.thorough else 9)]:
        p = a.split(" ")
        m = parse_case(l) if l.startswith("rpcextra.req ") else None
        if m and p[0] == "ok":
            buf = unhex(p[1])
            hdr = buf[int(p[2]):]
            e = m[4]
            if e["flags"] != 0:
                off = 8 + 4 + (8 if m[1] != 0 else 0)
                enc = hdr[off:]
                parse_lines.append("rpcextra.xread " + hx(enc + rng.bytes(rng.below(5))))
                for mw in mutations(rng, enc, 2):
                    parse_lines.append("rpcextra.xread " + hx(mw))
    for l, a, _ in res2[:: (3 if c.thorough else 9)]:
        p = a.split(" ")
        m = parse_case(l)
        if m and p[0] == "ok" and int(p[3]) != 0 and m[5] is None:
            buf = unhex(p[1])
            enc = buf[int(p[2]) + 12:]
            parse_lines.append("rpcextra.yread " + hx(enc + rng.bytes(rng.below(5))))
            for mw in mutations(rng, enc, 2):
                parse_lines.append("rpcextra.yread " + hx(mw))
    for _ in range(2000 if c.thorough else 400):
        parse_lines.append(rng.choice(["rpcextra.xread ", "rpcextra.yread "]) + hx(rng.bytes(rng.below(48))))
    c.tie("malformed", parse_lines, impl, model)

    # ------------------------------------------------------------ phase 4: end-to-end loopback (exploration)
    # a real rpc.Server and rpc.Client over TCP on 127.0.0.1: client Request.Extra vs HandlerContext.RequestExtra,
    # handler ResponseExtra / error vs client Response.Extra / error
    lines4 = [l for l in replay_lines if l.startswith("rpcextra.e2e ") or l.startswith("rpcextra.e2el ")]
    for _ in range(12000 if c.thorough else 1500):
        tl2 = rng.chance(1, 2)
        e = g.reqextra()
        k = rng.below(12)
        if k >= 2:
            e["flags"] &= ~(1 << 7) & (M32 - 1)           # no_result requests are refused by the client
        if True:
            # only timeouts that cannot fire during the run (a small one is a race between the local timer and the
            # response, not a property of the encoding); a few explicit zeros and stale/negative values
            kk = rng.below(12)
            if kk == 0:
                e["flags"] |= 1 << 23
                e["ct"] = 0
            elif kk == 1:
                e["ct"] = rng.choice([2**31, 2**32 - 1, rng.range(2**31, 2**32 - 1)])
            elif bit(e["flags"], 23):
                e["ct"] = rng.choice([600000, 2**31 - 1, rng.range(600000, 2**31 - 1)])
            elif kk != 2:
                e["ct"] = 0
        actor = rng.choice([0, 0, 1, g.u64(), g.u64()])
        body = g.body(REQ_WRAPPERS, tl2)
        if len(body) < 4 or first_word(body) in REQ_WRAPPERS:
            body = b"\x01\x02\x03\x04" + body
        err = rand_err()
        rbody = g.body(RESP_MAGIC, tl2)
        if not tl2 and (len(rbody) < 4 or first_word(rbody) in RESP_MAGIC):
            rbody = b"\x05\x06\x07\x08" + rbody
        re_ = g.resextra()
        ln = "rpcextra.e2e %d %d %s %s %s %s %s" % (actor, 1 if tl2 else 0, hx(body), w_reqextra(e), err_word(err), hx(rbody), w_resextra(re_))
        lines4.append(ln)
    # every second generated call is also answered through the long-poll path (a fresh HandlerContext restored from what
    # toLongpollContext saved); calls with a short custom timeout are left out: the server may time the long poll out first
    lp = []
    for i, l in enumerate([x for x in lines4 if x.startswith("rpcextra.e2e ")]):
        m = parse_case(l)
        if m and i % 2 == 0 and (m[3]["ct"] == 0 or 2000 <= m[3]["ct"] < 2**31):
            lp.append("rpcextra.e2el" + l[len("rpcextra.e2e"):])
    lines4 = lines4 + [l for l in lp if l not in lines4]
    c.count("loopback:long-poll calls", len(lp))
    res4 = c.tie("loopback", lines4, impl, model)
    for l, a, _ in res4:
        m = parse_case(l)
        if not m:
            continue
        actor, tl2, body, e, err, rbody, re_ = m
        ct = e["ct"]
        refused = bit(e["flags"], 7) or (not bit(e["flags"], 23) and ct != 0) or ct >= 2**31
        if refused:
            if a != "refused":
                c.oracle_fail(l, "client sent a request it documents as unsupported/invalid (got %s)" % a[:60], l)
            continue
        if a == "e2e-unavailable":
            c.count("loopback:unavailable")
            continue
        e2 = dict(e)
        if bit(e["flags"], 23) and ct == 0:
            e2["flags"] = e["flags"] & ~(1 << 23)   # documented normalisation: explicit infinite timeout is not sent
        ne = norm_reqextra(e2)
        to = str(ne["ct"]) if 0 < ne["ct"] < 2**31 else "d"
        tag = first_word(body)
        exp_srv = "%d %d %d 0 %d %s %s %s" % (actor, 1 if tl2 else 0, tag, e2["flags"], to, hx(body), w_reqextra(ne))
        nr = norm_resextra(re_, e2["flags"])
        if err is None:
            outcome, rest = "ok", rbody
        else:
            rest = b""
            if err[0] == "n":
                outcome = "e:%d:%s" % (ERR_NO_HANDLER, sx(b"RPC handler for #%08x not found" % tag))
            elif err[0] == "o":
                outcome = "e:%d:%s" % (ERR_UNKNOWN, sx(err[1]))
            else:
                outcome = "e:%d:%s" % (err[1] if err[1] != 0 else ERR_UNKNOWN, sx(err[2]))
        exp = "ok %s | %s %s %s" % (exp_srv, hx(rest), outcome, w_resextra(nr))
        if a != exp:
            side = "server" if a.split(" | ")[0] != exp.split(" | ")[0] else "client"
            c.oracle_fail(l, "end-to-end: what arrives at the %s differs from what the other side set" % side, l)
    # ------------------------------------------------------------ phase 5: the packet length limit (thorough only: 16 MiB bodies)
    if c.thorough or any(l.startswith("rpcextra.reqbig ") for l in replay_lines):
        LIMIT = 16777215 - 16
        lines5 = [l for l in replay_lines if l.startswith("rpcextra.reqbig ")]
        zero = "0 0 - 0 - - x 0 0 0 0 p:0:0 0:0:0:0:x x"
        if c.thorough:
            for tl2 in (0, 1):
                for d in (-1, 0, 1):
                    lines5.append("rpcextra.reqbig %d %d 0 %d %s" % (LIMIT - 8 - 4 * tl2 + d, 1 + rng.below(1000), tl2, zero))
            ex = g.reqextra(flags=(1 << 20) | (1 << 9), consistent=True)
            ex["sf"] = rng.bytes(300)
            hdr = 8 + 4 + 8 + 4 + 8 + (4 + 300)      # query id, tag, actor, flags, requester id, string(300) = 4-byte header + 300
            for d in (0, 1):
                lines5.append("rpcextra.reqbig %d 5 7 0 %s" % (LIMIT - hdr + d, w_reqextra(ex)))
        res5 = c.tie("limits", lines5, impl, model, jobs=4)
        for l, a, _ in res5:
            f = l.split(" ")
            try:
                n, actor, tl2, e = int(f[1]), int(f[3]), f[4] == "1", p_reqextra(f[5:])
            except (ValueError, IndexError, AssertionError):
                continue
            p = a.split(" ")
            if a != "big" and p[0] == "ok":
                if int(p[1]) > LIMIT:
                    c.oracle_fail(l, "preparePacket accepted a packet body of %s bytes, above maxPacketLen-packetOverhead" % p[1], l)
                if p[3] != "ok" or int(p[4]) != n or " ".join(p[5:]) != w_reqextra(norm_reqextra(e)):
                    c.oracle_fail(l, "largest-size request does not arrive unchanged at the server", l)
            elif a == "big":
                if e["flags"] == 0 and actor == 0 and n + 8 + (4 if tl2 else 0) <= LIMIT:
                    c.oracle_fail(l, "preparePacket rejected a packet body within maxPacketLen-packetOverhead", l)
    c.extra["rule"] = ("request lines: all/sampled combinations of the 13 value-carrying request mask bits, random extras (3/5 mask-consistent, "
                       "2/5 with stale values under clear bits), boundary ints/strings/dictionaries with duplicate and unsorted keys, both body "
                       "formats, actor 0/non-0, bodies incl. too short and wrapper-tag-prefixed; response lines: all 512 combinations of the "
                       "9 response mask bits x both formats, random request masks, nil/rpc.Error(code 0 too)/wrapped/ErrNoHandler/other errors; "
                       "malformed: truncations, bit flips, inserted tags, duplicated wrappers, random bytes for the four parsers; "
                       "limits (thorough): bodies at maxPacketLen-packetOverhead -1/0/+1 in both formats and with an extra; fwd: a sample of the request lines relayed once through ForwardAndFlush over a handshaken TCP PacketConn pair; loopback: random calls through a real rpc.Server/rpc.Client pair over TCP 127.0.0.1 (timeouts that cannot fire); "
                       "distinct = distinct line text; every line is a different input")
