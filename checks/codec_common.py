"""Shared machinery of the codec family (C01–C13, C17, C18, C43): schema corpus, descriptor export (T3),
generated-code driver build, type-directed generators of TL1 bytes, malformed stream."""
import json
import os
import shutil
import subprocess

from vlib.core import REPO, ROOT, goenv, run, hx

TLS = os.path.join(REPO, "internal/tlcodegen/test/tls")


def flags_struct(i):
    return (1 if i.get("isAlias") else 0) | (2 if i.get("isTypedef") else 0) | (4 if i.get("isUnwrap") else 0) | \
        (8 if i.get("isUnionElement") else 0) | (16 if i["hasTL2"] else 0) | (32 if i["originTL2"] else 0) | \
        (64 if i.get("isFunction") else 0) | (128 if i.get("boxedOnly") else 0)


def natarg_tok(a):
    return {"num": "n", "field": "f", "param": "p"}[a["k"]] + str(a["v"])


def field_toks(f):
    t = [f["name"] or "_", str(f["ty"]), "1" if f["bare"] else "0"]
    if f.get("mask"):
        t += [natarg_tok(f["mask"]), str(f["bit"])]
    else:
        t += ["-"]
    # flags token: bit 0 = isBit, bit 1 = TL2-omitted field (`_name:T`, gengo Field.IsTL2Omitted)
    t += [str(f["tl2bit"]) if f.get("tl2bit") is not None else "-",
          str((1 if f.get("isBit") else 0) | (2 if (f["name"] or "").startswith("_") else 0))]
    t += [str(len(f["natArgs"]))] + [natarg_tok(a) for a in f["natArgs"]]
    return t


def inst_toks(i):
    k = i["kind"]
    if k == "prim":
        if i["prim"] == "bool":
            return ["P", "bool", str(i.get("falseTag", 0)), str(i.get("trueTag", 0))]
        return ["P", i["prim"]]
    if k == "struct":
        fs = i.get("fields") or []
        t = ["S", str(i["tag"]), str(i["natParams"]), str(flags_struct(i)), str(i.get("unionIndex", 0)), str(len(fs))]
        for f in fs:
            t += field_toks(f)
        rn = i.get("resultNatArgs") or []
        t += [str(i.get("resultTy", 0)), "1" if i.get("resultBare") else "0", str(len(rn))] + [natarg_tok(a) for a in rn]
        return t
    if k == "union":
        fl = (1 if i.get("isEnum") else 0) | (2 if i.get("isMaybe") else 0) | (16 if i["hasTL2"] else 0)
        t = ["U", str(fl), str(i["natParams"]), str(len(i["variants"]))]
        for vi, n in zip(i["variants"], i["variantNames"]):
            t += [str(vi), n]
        en = i.get("elementNatArgs") or []
        t += [str(len(en))] + [natarg_tok(a) for a in en]
        return t
    if k == "array":
        fl = (1 if i.get("isTuple") else 0) | (2 if i.get("dynamicSize") else 0) | (16 if i["hasTL2"] else 0)
        return ["A", str(fl), str(i.get("count", 0)), str(i["natParams"])] + field_toks(i["elem"])
    if k == "dict":
        fl = 16 if i["hasTL2"] else 0
        return ["D", str(fl), str(i["natParams"])] + field_toks(i["elem"])
    raise ValueError("unknown instance kind " + k)


class Schema:
    def __init__(self, sid, files, tl2="", sanity=True, bytes_wl="", split=False):
        self.sid, self.files, self.tl2, self.sanity, self.bytes_wl, self.split = sid, files, tl2, sanity, bytes_wl, split
        self.desc = None
        self.impl = None
        self.otf = None

    def desc_line(self):
        toks = [str(len(self.desc["instances"]))]
        for i in self.desc["instances"]:
            toks += inst_toks(i)
        named = [i for i in self.desc["instances"] if i["kind"] in ("struct", "union") and i.get("tlname")]
        toks += ["R", str(len(named))]
        for i in named:
            toks += [str(i["idx"]), i["tlname"], "1" if i["topLevel"] else "0", str(i.get("annotations", 0))]
        # optional trailing section: TL name of every instance (JSON model: union variant names)
        toks += ["N", str(len(self.desc["instances"]))] + [(i.get("tlname") or "-").replace(" ", "") or "-" for i in self.desc["instances"]]
        return "codec.desc %s %s %s" % (self.sid, "1" if self.sanity else "0", " ".join(toks))

    def top_items(self):
        """(instance index, tl name) of every object the generated factory can create."""
        res = []
        for i in self.desc["instances"]:
            if i["kind"] in ("struct", "union") and i["natParams"] == 0 and i.get("factory"):
                res.append(i)
        return res


def export_desc(c, hcodec, sc):
    cmd = hcodec + ["desc"] + (["-tl2", sc.tl2] if sc.tl2 else []) + sc.files
    p = subprocess.run(cmd, stdout=subprocess.PIPE, stderr=subprocess.PIPE)
    if p.returncode != 0:
        return None, p.stderr.decode(errors="replace")[-2000:]
    last = p.stdout.decode().strip().split("\n")[-1]
    sc.desc = json.loads(last)
    return sc.desc, ""


def build_tl2gen(c):
    binp = os.path.join(c.workdir, "bin", "tl2gen")
    os.makedirs(os.path.dirname(binp), exist_ok=True)
    rc, out = run(["go", "build", "-o", binp, "./cmd/tl2gen"], cwd=REPO, env=goenv())
    if rc != 0:
        c.build_failed("tl2gen", out)
    return binp


def generate(c, tl2gen, sc, extra_flags=None):
    """Run tl2gen for a schema into a scratch module and build the generic driver. Returns (ok, message)."""
    mod = os.path.join(c.workdir, "genmod")
    os.makedirs(mod, exist_ok=True)
    gomod = os.path.join(mod, "go.mod")
    want = "module verif.local/h\n\ngo 1.24.0\n\nrequire github.com/VKCOM/tl v0.0.0\n\nreplace github.com/VKCOM/tl => %s\n" % REPO
    if not os.path.exists(gomod) or open(gomod).read().split("\n\nrequire (")[0] != want.rstrip("\n").split("\n\nrequire (")[0]:
        open(gomod, "w").write(want)
    shutil.copyfile(os.path.join(REPO, "go.sum"), os.path.join(mod, "go.sum"))
    out = os.path.join(mod, "g_" + sc.sid)
    shutil.rmtree(out, ignore_errors=True)
    cmd = [tl2gen, "--language=go", "--outdir=" + out, "--pkgPath=verif.local/h/g_%s/tl" % sc.sid,
           "--basicPkgPath=github.com/VKCOM/tl/pkg/basictl", "--generateRandomCode",
           "--checkLengthSanity=%s" % ("true" if sc.sanity else "false")]
    if sc.tl2:
        cmd.append("--tl2WhiteList=" + sc.tl2)
    if sc.bytes_wl:
        cmd.append("--generateByteVersions=" + sc.bytes_wl)
    if sc.split:
        cmd.append("--split-internal")
    cmd += (extra_flags or []) + sc.files
    p = subprocess.run(cmd, stdout=subprocess.PIPE, stderr=subprocess.STDOUT, env=goenv())
    sc.gen_rc, sc.gen_out = p.returncode, p.stdout.decode(errors="replace")
    if p.returncode != 0:
        return False, sc.gen_out[-1500:]
    main_dir = os.path.join(mod, "cmd_" + sc.sid)
    os.makedirs(main_dir, exist_ok=True)
    for fn in os.listdir(main_dir):
        os.remove(os.path.join(main_dir, fn))
    hdir = os.path.join(ROOT, "go", "hgen")
    for fn in sorted(os.listdir(hdir)):
        if not fn.endswith(".go.tmpl"):
            continue
        tmpl = open(os.path.join(hdir, fn)).read().replace("@PKG@", "verif.local/h/g_" + sc.sid)
        if not os.path.isdir(os.path.join(out, "factory_bytes")):
            tmpl = tmpl.replace('\t_ "verif.local/h/g_%s/factory_bytes"\n' % sc.sid, "")
        open(os.path.join(main_dir, fn[:-5]), "w").write(tmpl)
    binp = os.path.join(c.workdir, "bin", "gen_" + sc.sid)
    env = goenv()
    env["GOFLAGS"] = "-mod=mod"
    rc, o = run(["go", "build", "-o", binp, "./cmd_" + sc.sid], cwd=mod, env=env)
    if rc != 0:
        return False, "go build of generated code failed:\n" + o[-3000:]
    sc.impl = [binp]
    return True, ""


def mark_factory_items(c, sc):
    """Ask the generated driver which TL names its factory knows (ties C17) and mark instances."""
    names = {}
    for i in sc.desc["instances"]:
        if i["kind"] in ("struct", "union") and i["natParams"] == 0:
            names.setdefault(i["tlname"], []).append(i)
    return names


def factory_items(sc):
    """[(tlname, tag, isFunction, hasTL1, hasTL2)] as reported by the generated meta package."""
    p = subprocess.run(sc.impl, input=b"codec.items x\n", stdout=subprocess.PIPE)
    res = []
    for t in p.stdout.decode().split()[1:]:
        n, tag, fn, h1, h2, _ann = t.rsplit(":", 5)
        res.append((n, int(tag), fn == "true", h1 == "true", h2 == "true"))
    return res


def link_items(sc):
    """Map factory items to descriptor instances (by TL name, no nat params). Returns [(inst, item)]."""
    by_name = {}
    for i in sc.desc["instances"]:
        if i["kind"] in ("struct", "union") and i["natParams"] == 0:
            by_name.setdefault(i["tlname"], i)
    res = []
    sc.unlinked = []
    for it in factory_items(sc):
        i = by_name.get(it[0])
        if i is None:
            sc.unlinked.append(it[0])
        else:
            res.append((i, it))
    return res


# ------------------------------------------------------------------ type-directed TL1 generator
STR_LENS = [0, 0, 1, 2, 3, 4, 5, 7, 8, 11, 16, 31]
# string lengths that put the string's own length, or the body size of the objects around it (1..12 bytes of overhead), on either side
# of 65790 = 254 + 65536, where the TL2 size switches from the 3-byte to the 9-byte form
HUGE_LENS = list(range(65774, 65794)) + [65790] * 8 + [65786, 65787, 65788, 65789] * 2


class Gen1:
    """Produces valid TL1 encodings straight from the descriptor (an independent third implementation,
    used only to shape inputs: both sides of the tie decode what it produces)."""

    def __init__(self, sc, rng, maxdepth=4, big=False, noncanon=False, zero_bias=0, huge=0):
        self.huge = huge              # 1-in-`huge` strings get a length around 65790 = 254 + 65536 (boundary of the TL2 medium size form)
        self.I = sc.desc["instances"]
        self.rng = rng
        self.maxdepth = maxdepth
        self.big = big
        self.noncanon = noncanon      # emit some strings in non-minimal length forms / with non-zero padding (must be rejected)
        self.bad = 0                  # number of non-canonical strings emitted into the current value
        self.zero_bias = zero_bias    # percent chance that a primitive / string / vector is its empty value (sparse objects)

    def u32(self, n):
        return (n & 0xFFFFFFFF).to_bytes(4, "little")

    def string(self):
        r = self.rng
        if self.huge and r.chance(1, self.huge):
            n = r.choice(HUGE_LENS)
        elif self.big and r.chance(1, 40):
            n = r.choice([253, 254, 255, 256, 300])
        else:
            n = r.choice(STR_LENS)
        make_bad = self.noncanon and self.bad == 0 and r.chance(1, 2)   # at most one bad string per value, so nothing masks it
        if make_bad:
            n = r.choice([253, 253, 252, 1, 0, 17, 254, 300])
        k = r.below(4)
        s = bytes(r.below(256) for _ in range(n)) if k == 0 else bytes(r.range(97, 122) for _ in range(n))
        hdr = bytes([n]) if n <= 253 else b"\xfe" + n.to_bytes(3, "little")
        if make_bad:
            form = r.choice([0, 0, 1, 2])
            if form == 0 and n <= 253:
                hdr = b"\xfe" + n.to_bytes(3, "little")        # non-minimal medium form
                self.bad += 1
            elif form == 1:
                hdr = b"\xff" + n.to_bytes(7, "little")        # non-minimal huge form
                self.bad += 1
            elif (len(hdr) + n) % 4 != 0:
                b = hdr + s
                pad = bytearray(-len(b) % 4)
                pad[r.below(len(pad))] = r.range(1, 255)       # non-zero padding
                self.bad += 1
                return b + bytes(pad)
        b = hdr + s
        return b + bytes(-len(b) % 4)

    def prim(self, i):
        r = self.rng
        p = i["prim"]
        if self.zero_bias and r.below(100) < self.zero_bias and p != "bool":
            return {"uint32": 4, "int32": 4, "float32": 4, "uint64": 8, "int64": 8, "float64": 8, "string": 4, "byte": 1}.get(p, 0) * b"\x00"
        if p in ("uint32", "int32"):
            return self.u32(r.choice([0, 1, 2, 0xFFFFFFFF, 0x80000000, r.below(2**32), r.below(100)]))
        if p == "float32":
            return self.u32(r.choice([0, 0x3F800000, 0xBF800000, 0x80000000, 0x7FC00000, 0x7F800000, 0xFF800000, 0x40490FDB, 0x3F000000, 0x41200000, r.below(2**32)]))
        if p in ("uint64", "int64"):
            return r.choice([0, 1, 2**64 - 1, 2**63, r.below(2**64), r.below(1000)]).to_bytes(8, "little")
        if p == "float64":
            return r.choice([0, 0x3FF0000000000000, 0x8000000000000000, 0x7FF8000000000000, 0x7FF0000000000000, 0xFFF0000000000000,
                             0x4009_21FB_5444_2D18, 0x3FE0000000000000, r.below(2**64)]).to_bytes(8, "little")
        if p == "string":
            return self.string()
        if p == "bool":
            return self.u32(i.get("trueTag", 0) if r.chance(1, 2) else i.get("falseTag", 0))
        if p == "byte":
            return bytes([r.below(256)])
        return b""

    def natarg(self, a, vals, params):
        if a["k"] == "num":
            return a["v"]
        if a["k"] == "param":
            return params[a["v"]] if a["v"] < len(params) else 0
        v = vals[a["v"]] if a["v"] < len(vals) else None
        return v if isinstance(v, int) else 0

    def nat_field_value(self, s, idx, depth):
        """choose a value for `#` field idx of struct s according to how siblings use it"""
        r = self.rng
        bits, as_size, passed = set(), False, False
        for f in (s.get("fields") or []):
            m = f.get("mask")
            if m and m["k"] == "field" and m["v"] == idx:
                bits.add(f["bit"])
            for a in f["natArgs"]:
                if a["k"] == "field" and a["v"] == idx:
                    t = self.I[f["ty"]]
                    if t["kind"] == "array":
                        as_size = True
                    else:
                        passed = True
        if as_size or passed:
            v = r.choice([0, 0, 1, 1, 2, 3, 4, 5, 7, 8, 15]) if depth < self.maxdepth else r.choice([0, 0, 1])
            if bits and r.chance(1, 2):
                v = sum(1 << b for b in bits if r.chance(1, 2) and b < 4) or v
            return v
        if bits:
            if depth >= self.maxdepth:
                return 0
            k = r.below(6)
            if k == 0:
                return 0
            if k == 1:
                return sum(1 << b for b in bits)
            if k == 2:
                return r.below(2**32)
            return sum(1 << b for b in bits if r.chance(1, 2))
        return r.choice([0, 1, r.below(2**32), r.below(16)])

    def struct_body(self, s, params, depth):
        out = b""
        vals = []
        for idx, f in enumerate(s.get("fields") or []):
            present = True
            if f.get("mask"):
                present = (self.natarg(f["mask"], vals, params) >> f["bit"]) & 1 == 1
            if not present:
                vals.append(None)
                continue
            t = self.I[f["ty"]]
            na = [self.natarg(a, vals, params) for a in f["natArgs"]]
            if t["kind"] == "prim" and t["prim"] == "uint32":
                v = self.nat_field_value(s, idx, depth)
                vals.append(v)
                out += self.u32(v)
            else:
                vals.append(None)
                out += self.value(f["ty"], f["bare"], na, depth + 1)
        return out

    def value(self, ty, bare, params, depth):
        i = self.I[ty]
        k = i["kind"]
        r = self.rng
        if k == "prim":
            return self.prim(i)
        if k == "struct":
            return (b"" if bare else self.u32(i["tag"])) + self.struct_body(i, params, depth)
        if k == "union":
            vi = r.below(len(i["variants"])) if depth < self.maxdepth else 0
            v = self.I[i["variants"][vi]]
            na = [self.natarg(a, [], params) for a in (i.get("elementNatArgs") or [])]
            return self.u32(v["tag"]) + self.struct_body(v, na, depth)
        if k in ("array", "dict"):
            e = i["elem"]
            na = [self.natarg(a, [], params) for a in e["natArgs"]]
            out = b""
            if k == "array" and i.get("isTuple"):
                n = params[0] if i.get("dynamicSize") and params else i.get("count", 0)
                if n > 64:
                    n = n  # keep: the caller chose it
            else:
                n = 0 if depth >= self.maxdepth else r.choice([0, 0, 1, 1, 2, 3, 5])
                if self.zero_bias and r.below(100) < self.zero_bias:
                    n = 0
                out += self.u32(n)
            for _ in range(min(n, 4096)):
                out += self.value(e["ty"], e["bare"], na, depth + 1)
            return out
        raise ValueError(k)


def mutate(rng, b):
    """one malformed variant of a valid encoding"""
    if not b:
        return bytes([rng.below(256)])
    k = rng.below(8)
    m = bytearray(b)
    if k == 0:
        return bytes(m[:rng.below(len(m))])
    if k == 1:
        m[rng.below(len(m))] ^= 1 << rng.below(8)
    elif k == 2:
        i = rng.below(len(m))
        m[i] = rng.below(256)
    elif k == 3 and len(m) >= 4:
        i = 4 * rng.below(len(m) // 4)
        m[i:i + 4] = rng.choice([b"\xff\xff\xff\xff", b"\x00\x00\x00\x00", b"\x01\x00\x00\x00", b"\xff\xff\xff\x7f", b"\x00\x01\x00\x00"])
    elif k == 4:
        m += rng.bytes(rng.range(1, 8))
    elif k == 5 and len(m) >= 8:
        i = 4 * rng.below(len(m) // 4 - 1)
        m[i:i + 4], m[i + 4:i + 8] = m[i + 4:i + 8], m[i:i + 4]
    elif k == 6:
        i = rng.below(len(m))
        del m[i:i + rng.range(1, 4)]
    else:
        i = rng.below(len(m) + 1)
        m[i:i] = rng.bytes(rng.range(1, 4))
    return bytes(m)


# ------------------------------------------------------------------ shared set-up of the codec checks
def corpus(c, small=False):
    T = TLS
    s = [Schema("cases", [T + "/cases.tl"], tl2="*", sanity=True, bytes_wl="cases_bytes."),
         Schema("casesns", [T + "/cases.tl"], tl2="", sanity=False)]
    s.append(Schema("zs", [os.path.join(ROOT, "schemas", "zerosize.tl")], tl2="", sanity=True))
    # dictionaries whose values own storage (slices, nested maps, pointers): reuse bugs inside container readers show only there
    s.append(Schema("dv", [os.path.join(ROOT, "schemas", "dictval.tl")], tl2="*", sanity=True, bytes_wl="dv."))
    # structs with more than 8 / 16 fields: second and third TL2 presence-mask bytes
    s.append(Schema("wd", [os.path.join(ROOT, "schemas", "wide.tl")], tl2="*", sanity=True, bytes_wl="wd."))
    if c.thorough and not small:
        s += [Schema("gold", [T + "/goldmaster.tl", T + "/goldmaster2.tl", T + "/goldmaster3.tl"], tl2="*", sanity=True, split=True,
                     bytes_wl="ch_proxy.,ab.")]
    return s


def random_schemas(c, n, size=7):
    """n random TL1 schemas from checks/schemagen.py (seeded from the check's PRNG), written under the check's work directory.
    They are optional: a schema the kernel rejects or whose generated code does not build (C14's business) is skipped with a note."""
    from checks import schemagen
    from vlib.core import SplitMix64
    out = []
    for k in range(n):
        seed = c.rng.next()
        text, _ = schemagen.gen_schema(SplitMix64(seed), size + k % 4)
        path = os.path.join(c.workdir, "rand_%d.tl" % k)
        open(path, "w").write(text)
        sc = Schema("rnd%d" % k, [path], tl2="*" if k % 2 == 0 else "", sanity=True)
        sc.optional = True
        sc.seed = seed
        out.append(sc)
    return out


def prepare(c, schemas=None):
    """Build tl2gen + hcodec from the working tree, export descriptors, generate code, link factory items.
    Returns (model_cmd, hcodec_cmd, [Schema with .items])."""
    model = c.model_exe()
    hcodec = c.harness("hcodec")
    tl2gen = build_tl2gen(c)
    out = []
    for sc in (schemas if schemas is not None else corpus(c)):
        d, err = export_desc(c, hcodec, sc)
        if d is None:
            if getattr(sc, "optional", False):
                c.count("random-schema:rejected-by-kernel")
                continue
            c.proof_failures.append({"stage": "descriptor export", "schema": sc.sid, "detail": err})
            continue
        ok, msg = generate(c, tl2gen, sc)
        if not ok:
            if getattr(sc, "optional", False):
                c.count("random-schema:generated-code-does-not-build")
                c.notes.append("random schema seed %s skipped: %s" % (getattr(sc, "seed", "?"), msg.strip().split("\n")[-1][:160]))
                continue
            c.proof_failures.append({"stage": "generate", "schema": sc.sid, "detail": msg})
            continue
        sc.items = link_items(sc)
        sc.otf = hcodec + ["otf"] + (["-tl2", sc.tl2] if sc.tl2 else []) + sc.files
        out.append(sc)
    c.extra["programs"] = len(out)
    c.extra["schemas"] = [{"sid": s.sid, "files": [os.path.basename(f) for f in s.files], "tl2": s.tl2, "sanity": s.sanity,
                           "instances": len(s.desc["instances"]), "factory_items": len(s.items)} for s in out]
    c.trusted += ["hcodec descriptor export (pure.Kernel accessors)", "generic driver go/hgen over generated meta/factory",
                  "modelled not verified: Go slices/maps/append, encoding/binary; the tie is differential"]
    return model, hcodec, out


def reach_kinds(sc, ty, seen=None):
    """set of instance kinds reachable from ty"""
    seen = seen if seen is not None else set()
    if ty in seen:
        return set()
    seen.add(ty)
    i = sc.desc["instances"][ty]
    res = {i["kind"]}
    for f in i.get("fields") or []:
        res |= reach_kinds(sc, f["ty"], seen)
    if i.get("elem"):
        res |= reach_kinds(sc, i["elem"]["ty"], seen)
    for v in i.get("variants") or []:
        res |= reach_kinds(sc, v, seen)
    return res


def x1_lines(sc, rng, per, big=False, mutants=1, valid=True):
    g = Gen1(sc, rng.fork(), big=big)
    lines = []
    for inst, it in sc.items:
        for boxed in (0, 1):
            if inst["kind"] == "union" and not boxed:
                continue
            for _ in range(per):
                b = g.value(inst["idx"], not boxed, [], 0)
                if valid:
                    rest = rng.bytes(rng.below(5)) if rng.chance(1, 3) else b""
                    lines.append("codec.x1 %s %d %s %d %s" % (sc.sid, inst["idx"], inst["tlname"], boxed, hx(b + rest)))
                for _ in range(mutants):
                    m = mutate(rng, b) if sc.sanity else b[:rng.below(len(b) + 1)]
                    lines.append("codec.x1 %s %d %s %d %s" % (sc.sid, inst["idx"], inst["tlname"], boxed, hx(m)))
    return lines


def outputs(a):
    """{'w1': hex, 'w1b': hex, ...} from an `ok n k=v …` answer"""
    return dict(p.split("=", 1) for p in a.split(" ")[2:] if "=" in p)


def certificates(c, model, sc):
    """T3: evaluate the decidable hypotheses of the TL1 theorems on the exported descriptor, per factory item.
    Returns {instance idx: {closed, wf, productive, rt, min4, nodict, nobit}} and records them in the evidence."""
    from vlib.core import run_lines
    lines = ["codec.cert %s %d" % (sc.sid, inst["idx"]) for inst, it in sc.items]
    out = run_lines(model, lines, prefix=[sc.desc_line()])
    res = {}
    for (inst, it), a in zip(sc.items, out):
        if not a.startswith("ok "):
            c.proof_failures.append({"stage": "certificate", "schema": sc.sid, "type": inst["tlname"], "detail": a})
            continue
        res[inst["idx"]] = {k: v == "1" for k, v in (p.split("=") for p in a.split(" ")[1:])}
    tot = c.extra.setdefault("certificates", {"evaluated": 0, "wf": 0, "productive": 0, "roundtrip_guard": 0, "canonical_guard": 0})
    for idx, r in res.items():
        tot["evaluated"] += 1
        tot["wf"] += r["wf"]
        tot["productive"] += r["productive"]
        tot["roundtrip_guard"] += r["closed"] and r["rt"] and (r["min4"] or not sc.sanity)
        tot["canonical_guard"] += r["closed"] and r["nodict"] and r["nobit"]
    sc.certs = res
    return res
