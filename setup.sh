#!/bin/sh
# Offline build of the verification framework (MANIFEST.setup_cmd). Everything comes from disk.
set -e
cd "$(dirname "$0")"
export GOPROXY=off
unset GOFLAGS GOTOOLCHAIN GOSUMDB || true
mkdir -p .work/bin evidence
(cd go/factgen && go build -o ../../.work/bin/factgen .)
./.work/bin/factgen -repo "${VERIF_REPO:-/repo}" -spec facts.d -out lean/TLVerif/Generated || true
python3 tools/mkdriver.py
(cd lean && lake build $(cat modules.txt) tlmodel 2>&1 | grep -v '^trace' | grep -E 'error|✖|Build completed|failed' || true)
test -x lean/.lake/build/bin/tlmodel
# warm the Go build cache for the repository packages the harnesses use
(cd "${VERIF_REPO:-/repo}" && go build ./pkg/... ./internal/... ./cmd/... >/dev/null 2>&1 || true)
echo "setup ok"
