"""Common machinery for every property check (see DESIGN.md §1.2, §1.5).

A check module `checks/Cnn.py` defines `run(c: Check)`; it calls
  c.facts()                      regenerate Lean fact files from /repo (T1)
  c.lean(modules, theorems)      lake build + axiom audit (proof obligations)
  c.harness(name, ...)           build a Go harness from /repo's working tree (-tags verif -overlay)
  c.tie(name, lines, impl_cmd)   run implementation and Lean model on the same lines, diff (T2)
  c.oracle_fail(...)             report an input on which the property itself fails on the implementation
  c.finish()                     verdict, evidence, replay, exit code
"""
import fcntl
import hashlib
import json
import os
import re
import shutil
import subprocess
import sys
import time

ROOT = os.path.dirname(os.path.dirname(os.path.abspath(__file__)))
REPO = os.environ.get("VERIF_REPO", "/repo")
LEAN = os.path.join(ROOT, "lean")
WORK = os.path.join(ROOT, ".work")
# evidence/ describes /repo; a run redirected to another tree (VERIF_REPO, used to evaluate seeded changes) keeps its evidence apart
EVID = os.path.join(ROOT, "evidence") if os.path.realpath(REPO) == "/repo" else os.path.join(WORK, "evidence-alt")
REPLAYS = os.path.join(ROOT, "replays")
ALLOWED_AXIOMS = {"propext", "Classical.choice", "Quot.sound"}
BANNED = re.compile(r"\b(sorry|admit|native_decide|bv_decide|implemented_by|unsafe)\b|maxHeartbeats\s+0|^\s*axiom\s", re.M)
NCPU = os.cpu_count() or 4


def goenv():
    e = dict(os.environ)
    e["GOPROXY"] = "off"
    e.pop("GOFLAGS", None)
    e.pop("GOTOOLCHAIN", None)
    e.pop("GOSUMDB", None)
    return e


class SplitMix64:
    """The single PRNG every generator derives its choices from (seed printed in evidence)."""

    def __init__(self, seed):
        self.s = seed & 0xFFFFFFFFFFFFFFFF

    def next(self):
        self.s = (self.s + 0x9E3779B97F4A7C15) & 0xFFFFFFFFFFFFFFFF
        z = self.s
        z = ((z ^ (z >> 30)) * 0xBF58476D1CE4E5B9) & 0xFFFFFFFFFFFFFFFF
        z = ((z ^ (z >> 27)) * 0x94D049BB133111EB) & 0xFFFFFFFFFFFFFFFF
        return z ^ (z >> 31)

    def below(self, n):
        return self.next() % n if n > 0 else 0

    def range(self, a, b):
        return a + self.below(b - a + 1)

    def chance(self, num, den):
        return self.below(den) < num

    def choice(self, xs):
        return xs[self.below(len(xs))]

    def bytes(self, n):
        out = bytearray()
        while len(out) < n:
            out += self.next().to_bytes(8, "little")
        return bytes(out[:n])

    def shuffle(self, xs):
        for i in range(len(xs) - 1, 0, -1):
            j = self.below(i + 1)
            xs[i], xs[j] = xs[j], xs[i]

    def fork(self):
        return SplitMix64(self.next())


def hx(b):
    return b.hex() if len(b) else "-"


class Lock:
    def __init__(self, name):
        os.makedirs(WORK, exist_ok=True)
        self.path = os.path.join(WORK, name + ".lock")

    def __enter__(self):
        self.f = open(self.path, "w")
        fcntl.flock(self.f, fcntl.LOCK_EX)
        return self

    def __exit__(self, *a):
        fcntl.flock(self.f, fcntl.LOCK_UN)
        self.f.close()


def run(cmd, cwd=None, env=None, inp=None, timeout=None):
    p = subprocess.run(cmd, cwd=cwd, env=env, input=inp, stdout=subprocess.PIPE, stderr=subprocess.STDOUT,
                       timeout=timeout, text=isinstance(inp, str) or inp is None)
    return p.returncode, p.stdout


def _limit_as(nbytes):
    def f():
        import resource
        resource.setrlimit(resource.RLIMIT_AS, (nbytes, nbytes))
    return f


def run_lines(cmd, lines, cwd=None, env=None, jobs=None, timeout=3600, prefix=None, mem_limit=None):
    """Feed `lines` to `cmd` (one result line per input line), in parallel chunks. Returns list of
    output lines; a chunk whose process dies yields 'CRASH' for the lines it did not answer."""
    if not lines:
        return []
    jobs = jobs or min(NCPU, max(1, len(lines) // 200))
    n = len(lines)
    chunks = [(i * n // jobs, (i + 1) * n // jobs) for i in range(jobs)]
    out = [None] * n
    import threading
    pre = prefix or []

    def feed(a, b):
        # a process that dies answers k lines: line k is the culprit ("CRASH"), the rest is re-run in a new process
        pos = a
        restarts = 0
        while pos < b:
            data = ("\n".join(pre + lines[pos:b]) + "\n").encode()
            p = subprocess.Popen(cmd, cwd=cwd, env=env, stdin=subprocess.PIPE, stdout=subprocess.PIPE,
                                 stderr=subprocess.PIPE, preexec_fn=_limit_as(mem_limit) if mem_limit else None)
            try:
                so, se = p.communicate(data, timeout=timeout)
                timed_out = False
            except subprocess.TimeoutExpired:
                p.kill()
                so, se = p.communicate()
                timed_out = True
            res = so.decode(errors="replace").split("\n")
            if res and res[-1] == "":
                res.pop()
            res = res[len(pre):]
            got = min(len(res), b - pos)
            for k in range(got):
                out[pos + k] = res[k]
            pos += got
            if pos < b:
                out[pos] = "TIMEOUT" if timed_out else "CRASH"
                pos += 1
                restarts += 1
                if restarts > 50:
                    for k in range(pos, b):
                        out[k] = "CRASH"
                    if se:
                        sys.stderr.write(se.decode(errors="replace")[-1500:])
                    break

    ths = [threading.Thread(target=feed, args=ab) for ab in chunks]
    for t in ths:
        t.start()
    for t in ths:
        t.join()
    return out


def load_known():
    import glob
    res = {"findings": [], "fixed": []}
    for p in [os.path.join(ROOT, "known_findings.json")] + sorted(glob.glob(os.path.join(ROOT, "known_findings.d", "*.json"))):
        if os.path.exists(p):
            d = json.load(open(p))
            res["findings"] += d.get("findings", [])
            res["fixed"] += d.get("fixed", [])
    return res


class Check:
    def __init__(self, pid, tier="quick", seed=0, level="proof"):
        self.pid = pid
        self.tier = tier
        self.seed = seed
        self.level = level
        self.t0 = time.time()
        self.rng = SplitMix64(seed * 1000003 + int(pid[1:]))
        self.theorems = []  # (name, ok, axioms)
        self.proof_failures = []  # text
        self.tie_failures = []  # dict
        self.oracle_failures = []  # dict(key, what, input)
        self.evaluations = 0
        self.distinct = set()
        self.samples = []
        self.dist = {}
        self.assumptions = []
        self.trusted = ["Lean 4.33.0 kernel", "axioms: propext, Classical.choice, Quot.sound only (audited by #print axioms)",
                        "Lean compiler/runtime for the tlmodel driver", "vlib line protocol + harness glue"]
        self.checker_cmd = ""
        self.extra = {}
        self.notes = []
        self.workdir = os.path.join(WORK, pid)
        os.makedirs(self.workdir, exist_ok=True)
        os.makedirs(EVID, exist_ok=True)
        # two runs of the same property (e.g. quick and thorough started together) share this work directory: serialise them
        self._runlock = open(os.path.join(self.workdir, ".lock"), "w")
        fcntl.flock(self._runlock, fcntl.LOCK_EX)
        self.thorough = tier == "thorough"
        self.impl_mem_limit = 6 << 30   # address-space limit of implementation harness processes (a runaway allocation crashes, not thrashes)
        self.impl_timeout = 900

    # ---------------------------------------------------------------- facts (T1)
    def facts(self, families=None):
        """Regenerate TLVerif/Generated/*Facts.lean from /repo's working tree."""
        with Lock("lake"):
            fg = os.path.join(WORK, "bin", "factgen")
            os.makedirs(os.path.dirname(fg), exist_ok=True)
            rc, out = run(["go", "build", "-o", fg, "."], cwd=os.path.join(ROOT, "go", "factgen"), env=goenv())
            if rc != 0:
                raise SystemExit("factgen build failed:\n" + out)
            cmd = [fg, "-repo", REPO, "-spec", os.path.join(ROOT, "facts.d"), "-out", os.path.join(LEAN, "TLVerif", "Generated")]
            if families:
                cmd += ["-only", ",".join(families)]
            rc, out = run(cmd, env=goenv())
            if rc != 0:
                self.proof_failures.append({"stage": "factgen", "detail": out[-3000:]})
            return out

    # ---------------------------------------------------------------- proofs
    def lean(self, modules, theorems, sources=None):
        """Build proof modules, audit axioms of the property theorems. Records obligations."""
        self.checker_cmd = "cd lean && lake build " + " ".join(modules) + " && lake env lean <audit: #print axioms>" + \
            (" && lake env leanchecker " + " ".join(modules) if self.thorough else "")
        with Lock("lake"):
            rc, out = run(["lake", "build"] + modules, cwd=LEAN)
            if rc != 0:
                errs = [l for l in out.split("\n") if "error" in l.lower()][:20]
                self.proof_failures.append({"stage": "lake build", "modules": modules, "detail": "\n".join(errs) or out[-3000:]})
                failed_mods = set(re.findall(r"^- (\S+)", out, re.M))
            else:
                failed_mods = set()
            # audit
            audit = os.path.join(self.workdir, "Audit.lean")
            ok_mods = [m for m in modules if m not in failed_mods]
            if rc != 0:
                # find which theorems still check: build each module separately is expensive; mark all unknown
                for t in theorems:
                    self.theorems.append({"name": t, "ok": False, "axioms": None})
            else:
                with open(audit, "w") as f:
                    for m in modules:
                        f.write("import %s\n" % m)
                    for t in theorems:
                        f.write("#print axioms %s\n" % t)
                rc2, out2 = run(["lake", "env", "lean", audit], cwd=LEAN)
                parsed = parse_axioms(out2)
                for t in theorems:
                    ax = parsed.get(t)
                    ok = ax is not None and set(ax) <= ALLOWED_AXIOMS
                    self.theorems.append({"name": t, "ok": ok, "axioms": ax})
                    if not ok:
                        self.proof_failures.append({"stage": "axiom audit", "theorem": t, "axioms": ax,
                                                    "detail": out2[-1500:] if ax is None else ""})
                if self.thorough:
                    rc3, out3 = run(["lake", "env", "leanchecker"] + modules, cwd=LEAN)
                    self.extra["leanchecker"] = "ok" if rc3 == 0 else out3[-1000:]
                    if rc3 != 0:
                        self.proof_failures.append({"stage": "leanchecker", "detail": out3[-2000:]})
        # banned tokens
        for m in modules + (sources or []):
            p = os.path.join(LEAN, m.replace(".", "/") + ".lean")
            if os.path.exists(p):
                txt = strip_comments(open(p).read())
                mm = BANNED.search(txt)
                if mm:
                    self.proof_failures.append({"stage": "banned token", "module": m, "token": mm.group(0)})

    def model_exe(self):
        """Build the core-only model driver (depends on model files + regenerated facts only)."""
        with Lock("lake"):
            run([sys.executable, os.path.join(ROOT, "tools", "mkdriver.py")])
            rc, out = run(["lake", "build", "tlmodel"], cwd=LEAN)
            if rc != 0:
                raise SystemExit("tlmodel build failed:\n" + out[-4000:])
        return [os.path.join(LEAN, ".lake", "build", "bin", "tlmodel")]

    # ---------------------------------------------------------------- implementation side
    def harness(self, name, srcdir=None, overlays=None, pkg=None, race=False, tags="verif"):
        """Build /verif/go/<name> as package /repo/internal/verifh/<name> via -overlay.
        overlays: {path-inside-repo: source-file} for in-package access."""
        srcdir = srcdir or os.path.join(ROOT, "go", name)
        pkg = pkg or ("internal/verifh/" + name)
        ov = {}
        for fn in sorted(os.listdir(srcdir)):
            if fn.endswith(".go"):
                ov[os.path.join(REPO, pkg, fn)] = os.path.join(srcdir, fn)
        for k, v in (overlays or {}).items():
            ov[os.path.join(REPO, k)] = v
        ovf = os.path.join(self.workdir, "overlay-%s.json" % name)
        json.dump({"Replace": ov}, open(ovf, "w"))
        binp = os.path.join(self.workdir, "bin", name)
        os.makedirs(os.path.dirname(binp), exist_ok=True)
        if os.path.exists(binp):
            os.remove(binp)
        cmd = ["go", "build", "-tags", tags, "-overlay", ovf, "-o", binp]
        if race:
            cmd.append("-race")
        cmd.append("./" + pkg)
        rc, out = run(cmd, cwd=REPO, env=goenv())
        if rc != 0:
            self.build_failed(name, out)
        return [binp]

    def build_failed(self, name, out):
        # The tree does not compile with the harness: not a property verdict we can decide.
        self.proof_failures.append({"stage": "harness build", "harness": name, "detail": out[-3000:]})
        self.finish()

    # ---------------------------------------------------------------- tie (T2)
    def tie(self, name, lines, impl_cmd, model_cmd, canon=None, jobs=None, nontrivial=None, cwd=None, env=None, prefix=None):
        """Run both sides on `lines`; returns list of (line, impl_out, model_out). `prefix` lines (state set-up,
        e.g. descriptors) are sent first to every process and their answers dropped."""
        t0 = time.time()
        impl = run_lines(impl_cmd, lines, jobs=jobs, cwd=cwd, env=env, prefix=prefix, mem_limit=self.impl_mem_limit, timeout=self.impl_timeout)
        t1 = time.time()
        model = run_lines(model_cmd, lines, jobs=jobs, prefix=prefix)
        if os.environ.get("VERIF_TIMING"):
            sys.stderr.write("tie %s: %d lines, %d bytes, impl %.1fs, model %.1fs\n" % (name, len(lines), sum(map(len, lines)), t1 - t0, time.time() - t1))
        res = []
        for l, a, b in zip(lines, impl, model):
            self.evaluations += 1
            ca, cb = (canon(a), canon(b)) if canon else (a, b)
            if ca != cb:
                self.tie_failures.append({"tie": name, "line": l, "impl": a, "model": b})
            if nontrivial is None or nontrivial(l, a):
                self.distinct.add(hashlib.sha1(l.encode()).hexdigest()[:16])
            op = l.split(" ", 1)[0]
            k = op + ":" + (a.split(" ", 2)[0] + " " + a.split(" ", 2)[1] if a.startswith("err ") and len(a.split(" ")) > 1 else a.split(" ", 1)[0])
            self.dist[k] = self.dist.get(k, 0) + 1
            res.append((l, a, b))
        if lines and len(self.samples) < 12:
            step = max(1, len(lines) // 4)
            for i in range(0, len(lines), step):
                l, a, b = res[i]
                self.samples.append({"tie": name, "line": l[:300], "impl": a[:300], "model": b[:300]})
        return res

    def count(self, key, n=1):
        self.dist[key] = self.dist.get(key, 0) + n

    def oracle_fail(self, key, what, inp=None):
        self.oracle_failures.append({"key": key, "what": what, "input": inp})

    # ---------------------------------------------------------------- verdict
    def finish(self):
        known = load_known()
        kf = [k for k in known.get("findings", []) if k.get("property") == self.pid]
        known_keys = {k["key"]: k for k in kf}
        new_fail = []
        printed = set()
        for f in self.oracle_failures:
            k = known_keys.get(f["key"])
            if k:
                if f["key"] not in printed:
                    print("KNOWN-FINDING: property=%s %s" % (self.pid, k.get("what", f["what"])))
                    printed.add(f["key"])
            else:
                new_fail.append(f)
        # tie failures explained by a known finding (same key) are not alarms
        tie_unexplained = [t for t in self.tie_failures if t["line"] not in known_keys and not t.get("explained")]
        for t in self.tie_failures:
            k = known_keys.get(t["line"])
            if k and t["line"] not in printed:
                print("KNOWN-FINDING: property=%s %s" % (self.pid, k.get("what")))
                printed.add(t["line"])
        # every listed finding gets its line; one whose witness this run's inputs (tier, seed) did not reach says so
        for k in kf:
            if k["key"] not in printed:
                print("KNOWN-FINDING: property=%s %s [listed; not reached by the inputs of this run (tier=%s seed=%d)]" % (
                    self.pid, k.get("what", ""), self.tier, self.seed))
                printed.add(k["key"])
        broken = bool(self.proof_failures or tie_unexplained)
        violations = 0
        replay = None
        new_fail.sort(key=lambda f: (len(str(f.get("input") or f["key"])), str(f["key"])))
        if new_fail:
            violations = len(new_fail)
            replay = self.write_replay({"property": self.pid, "kind": "input", "seed": self.seed, "tier": self.tier,
                                        "failures": new_fail[:20],
                                        "broken_proofs": self.proof_failures[:10], "broken_ties": tie_unexplained[:10]})
            print("VIOLATION property=%s replay=%s" % (self.pid, replay))
        elif broken:
            violations = 1
            replay = self.write_replay({"property": self.pid, "kind": "no-failing-input", "seed": self.seed, "tier": self.tier,
                                        "broken_proofs": self.proof_failures[:20], "broken_ties": tie_unexplained[:20],
                                        "note": "a theorem or the model/implementation correspondence no longer checks; "
                                                "the search found no input on which the property itself fails"})
            print("VIOLATION property=%s replay=%s no-failing-input-found" % (self.pid, replay))
        self.write_evidence(violations)
        for n in self.notes:
            print("note:", n)
        print("%s %s tier=%s seed=%d theorems=%d/%d evaluations=%d tie_failures=%d oracle_failures=%d wall=%.1fs" % (
            self.pid, "FAIL" if violations else "ok", self.tier, self.seed,
            sum(1 for t in self.theorems if t["ok"]), len(self.theorems), self.evaluations,
            len(self.tie_failures), len(self.oracle_failures), time.time() - self.t0))
        sys.stdout.flush()
        sys.exit(1 if violations else 0)

    def write_replay(self, obj):
        os.makedirs(REPLAYS, exist_ok=True)
        h = hashlib.sha1(json.dumps(obj, sort_keys=True, default=str).encode()).hexdigest()[:12]
        p = os.path.join(REPLAYS, "%s-%s.json" % (self.pid, h))
        json.dump(obj, open(p, "w"), indent=1, default=str)
        return p

    def write_evidence(self, violations):
        obl = len(self.theorems)
        dis = sum(1 for t in self.theorems if t["ok"])
        cov = {
            "evaluations": self.evaluations,
            "distinct_nontrivial": len(self.distinct),
            "rule": self.extra.pop("rule", "cases are protocol lines generated from VERIF_SEED by the check's generator; "
                                   "distinct = distinct line text; non-trivial = per-check predicate (see check source)"),
            "samples": self.samples[:12] or [{"note": "no tie cases in this run"}],
            "obligations": obl,
            "discharged": dis,
            "checker_cmd": self.checker_cmd or "n/a",
            "trusted_base": self.trusted,
            "theorems": self.theorems,
            "input_distribution": dict(sorted(self.dist.items())),
            "tie_failures": len(self.tie_failures),
            "oracle_failures": len(self.oracle_failures),
            "proof_failures": self.proof_failures[:10],
        }
        if self.level == "translation_validation":
            cov["programs"] = self.extra.pop("programs", 0)
            cov["disagreements_checked"] = len(self.tie_failures)
        if self.level == "other":
            cov["explanation"] = self.extra.pop("explanation", "")
        cov.update(self.extra)
        ev = {"property_id": self.pid, "tier": self.tier, "seed": self.seed, "level": self.level, "coverage": cov,
              "assumptions": self.assumptions, "wall_s": round(time.time() - self.t0, 2), "violations": violations}
        json.dump(ev, open(os.path.join(EVID, self.pid + ".json"), "w"), indent=1, default=str)


def parse_axioms(out):
    """Parse `#print axioms` output into {theorem: [axioms]}."""
    res = {}
    txt = out.replace("\n  ", " ").replace("\n ", " ")
    for m in re.finditer(r"'([^']+)' depends on axioms: \[([^\]]*)\]", txt):
        res[m.group(1)] = [a.strip() for a in m.group(2).replace("\n", " ").split(",") if a.strip()]
    for m in re.finditer(r"'([^']+)' does not depend on any axioms", txt):
        res[m.group(1)] = []
    return res


def strip_comments(s):
    s = re.sub(r"/-.*?-/", "", s, flags=re.S)
    s = re.sub(r"--.*", "", s)
    return s
