#!/usr/bin/env python3
"""tools/seed_record.py <seed-id> <property> <worktree> <outdir> <needs-text> -- <check ids...>
Copies patch.diff + demonstration into /verif/seeded/<seed-id>/ and runs the listed checks against the worktree
(VERIF_REPO), recording verdicts in meta.json."""
import json, os, shutil, subprocess, sys
sid, prop, wt, outdir, needs = sys.argv[1:6]
checks = sys.argv[sys.argv.index("--") + 1:]
root = os.path.dirname(os.path.dirname(os.path.abspath(__file__)))
dst = os.path.join(root, "seeded", sid)
os.makedirs(dst, exist_ok=True)
for fn in (os.listdir(outdir) if os.path.realpath(outdir) != os.path.realpath(dst) else []):
    src = os.path.join(outdir, fn)
    if os.path.isdir(src):
        shutil.copytree(src, os.path.join(dst, fn), dirs_exist_ok=True)
    elif os.path.getsize(src) < 2_000_000:
        shutil.copy(src, dst)
results = {}
for cid in checks:
    env = dict(os.environ, VERIF_REPO=wt)
    p = subprocess.run([os.path.join(root, "check"), cid], cwd=root, env=env, stdout=subprocess.PIPE, stderr=subprocess.STDOUT, text=True)
    lines = [l for l in p.stdout.split("\n") if l.startswith("VIOLATION") or l.startswith(cid + " ")]
    results[cid] = {"exit": p.returncode, "lines": [l[:300] for l in lines]}
    print(cid, p.returncode, lines[-1][:200] if lines else "")
meta = {"seed": sid, "breaks_property": prop, "needs_to_manifest": needs, "confirmed": "patch applies to /repo HEAD; build + existing suite pass with it; demonstration fails with it and passes without (re-run by the integrator in the scratch worktree)",
        "checks_run": results,
        "caught_by": [c for c, r in results.items() if r["exit"] == 1 and not any("no-failing-input-found" in l for l in r["lines"])],
        "caught_without_input_by": [c for c, r in results.items() if r["exit"] == 1 and any("no-failing-input-found" in l for l in r["lines"])],
        "missed_by": [c for c, r in results.items() if r["exit"] == 0]}
mp = os.path.join(dst, "meta.json")
if os.path.exists(mp):
    try:
        old = json.load(open(mp))
        for k in ("history", "first_run"):
            if k in old: meta[k] = old[k]
        if "first_run" not in meta and old.get("checks_run"):
            meta["first_run"] = {"caught_by": old.get("caught_by"), "missed_by": old.get("missed_by"), "caught_without_input_by": old.get("caught_without_input_by")}
    except Exception: pass
json.dump(meta, open(mp, "w"), indent=1)
