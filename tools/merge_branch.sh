#!/bin/sh
# merge a family branch; generated files (driver main, root import file, manifest) are regenerated, never merged by hand
cd "$(dirname "$0")/.."
git merge --no-edit "$1" >/dev/null 2>&1
python3 tools/mkdriver.py >/dev/null
python3-vt tools/mkmanifest.py
for f in $(git diff --name-only --diff-filter=U | grep "^evidence/"); do git checkout --ours "$f"; git add "$f"; done
git add -A lean/TLVerif.lean lean/Driver/Main.lean MANIFEST.json
if git diff --name-only --diff-filter=U | grep -q .; then echo "UNRESOLVED:"; git diff --name-only --diff-filter=U; exit 1; fi
git commit -qm "merge $1" --no-edit 2>/dev/null || true
git log --oneline | head -1
