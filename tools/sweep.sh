#!/bin/sh
# tools/sweep.sh <seed> [tier] : run every registered check once, print one line each
cd "$(dirname "$0")/.."
seed=${1:-0}; tier=${2:-quick}
for id in $(python3 -c "import json;print(' '.join(c['property_id'] for c in json.load(open('MANIFEST.json'))['checks']))"); do
  s=$(date +%s)
  out=$(VERIF_SEED=$seed ./check $id --tier $tier 2>&1)
  rc=$?
  e=$(( $(date +%s) - s ))
  echo "$id rc=$rc ${e}s $(echo "$out" | grep -E "^VIOLATION|^$id " | tail -2 | cut -c1-200 | tr '\n' ' ')"
done
