#!/usr/bin/env python3
"""tools/mktables.py : regenerate the status table (§9.2) and the seeded-change table (§9.5) of DESIGN.md in place, between the
<!-- table:status --> / <!-- table:seeds --> markers, from evidence/*.json, manifest.d/*.json, known_findings.json and seeded/*/meta.json."""
import glob, json, os, re
root = os.path.dirname(os.path.dirname(os.path.abspath(__file__)))
known = json.load(open(os.path.join(root, "known_findings.json")))
nk = {}
for f in known.get("findings", []):
    nk[f["property"]] = nk.get(f["property"], 0) + 1
rows = ["| id | level | theorems ok | cases | findings | deciding technique |", "|----|-------|-------------|-------|----------|--------------------|"]
for p in sorted(glob.glob(os.path.join(root, "manifest.d", "C*.json"))):
    m = json.load(open(p))
    pid = m.get("id") or os.path.basename(p)[:-5]
    ev = {}
    try:
        ev = json.load(open(os.path.join(root, "evidence", pid + ".json")))
    except Exception:
        pass
    lv = (m.get("level_claimed") or {}).get("category", "?")
    cov = ev.get("coverage") or {}
    th = "%s/%s" % (cov.get("discharged", 0), cov.get("obligations", 0))
    rows.append("| %s | %s | %s | %s | %d | %s |" % (pid, lv, th, cov.get("evaluations", "?"), nk.get(pid, 0), (m.get("technique") or "")[:90].replace("|", "/")))
status = "\n".join(rows)
rows = ["| seed | property | caught with failing input by | caught without input by | missed by (final) | missed on first run by |", "|------|----------|------------------------------|-------------------------|-------------------|------------------------|"]
for d in sorted(glob.glob(os.path.join(root, "seeded", "*", "meta.json"))):
    m = json.load(open(d))
    fr = m.get("first_run") or {}
    first = ", ".join(x for x in (fr.get("missed_by") or []) if x not in (m.get("missed_by") or [])) or ("see history" if m.get("history") else "-")
    rows.append("| %s | %s | %s | %s | %s | %s |" % (m["seed"], m["breaks_property"], ", ".join(m["caught_by"]) or "-", ", ".join(m["caught_without_input_by"]) or "-",
                                                  ", ".join(m["missed_by"]) or "-", first))
seeds = "\n".join(rows)
p = os.path.join(root, "DESIGN.md")
s = open(p).read()
for name, tbl in (("status", status), ("seeds", seeds)):
    a, b = "<!-- table:%s -->" % name, "<!-- /table:%s -->" % name
    if a in s and b in s:
        s = s[:s.index(a) + len(a)] + "\n" + tbl + "\n" + s[s.index(b):]
    else:
        print("marker missing:", name)
open(p, "w").write(s)
