#!/usr/bin/env python3
"""Assemble MANIFEST.json from manifest.d/*.json (one fragment per claimed property) and
not_applicable.json. Run after editing a fragment; validates against the schema when jsonschema is available."""
import glob, json, os, sys
root = os.path.dirname(os.path.dirname(os.path.abspath(__file__)))
checks = []
for p in sorted(glob.glob(os.path.join(root, "manifest.d", "C*.json"))):
    f = json.load(open(p))
    pid = f["property_id"]
    f.setdefault("quick_cmd", "./check %s --tier quick" % pid)
    f.setdefault("thorough_cmd", "./check %s --tier thorough" % pid)
    f.setdefault("evidence_file", "/verif/evidence/%s.json" % pid)
    f.setdefault("replay_cmd_template", "./check %s --replay {path}" % pid)
    f.setdefault("engine", "lean-tlverif")
    checks.append(f)
claimed = {c["property_id"] for c in checks}
na = [x for x in json.load(open(os.path.join(root, "manifest.d", "not_applicable.json"))) if x["property_id"] not in claimed]
props = [json.loads(l)["id"] for l in open(os.path.join(root, "properties.jsonl")) if l.strip()]
missing = [p for p in props if p not in claimed and p not in {x["property_id"] for x in na}]
for p in missing:
    na.append({"property_id": p, "reason": "not yet built in this round: no check is registered for it (see DESIGN.md §4 for the planned theorem and tie)"})
man = {
    "version": 1,
    "setup_cmd": "./setup.sh",
    "hooks": {
        "guard": "verif",
        "enable": "go build -tags verif -overlay <generated overlay.json> (harness packages and in-package files are added by overlay; /repo has no hook commits)",
        "baseline_off_cmd": "cd /repo && GOPROXY=off go test -vet=off -count=1 -timeout 25m ./...",
        "source_commits": [],
        "add_only": True,
    },
    "engines": [{"name": "lean-tlverif", "path": "/verif/lean", "serves_properties": sorted(claimed),
                 "kind_free_text": "Lean 4 models + theorems (lake project TLVerif), facts regenerated from /repo by go/factgen, "
                                   "line-protocol differential tie between the compiled model driver tlmodel and Go harnesses built from /repo with -overlay"}],
    "checks": checks,
    "not_applicable": sorted(na, key=lambda x: x["property_id"]),
    "notes": "See DESIGN.md. Every check: regenerate facts -> lake build + #print axioms audit -> build harness from /repo working tree -> differential tie -> property oracle -> verdict.",
}
json.dump(man, open(os.path.join(root, "MANIFEST.json"), "w"), indent=1)
try:
    import jsonschema
    jsonschema.validate(man, json.load(open("/root/.vp/MANIFEST.schema.json")))
    print("MANIFEST.json valid;", len(checks), "checks,", len(man["not_applicable"]), "not applicable/not yet built")
except ImportError:
    print("MANIFEST.json written (jsonschema not available to validate)")
