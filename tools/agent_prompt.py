#!/usr/bin/env python3
"""Print the standard prompt for a family-builder sub-agent: tools/agent_prompt.py <name> <Family> C41[,C42] 'specific notes'"""
import json, sys
name, fam, ids, notes = sys.argv[1], sys.argv[2], sys.argv[3].split(","), sys.argv[4]
props = {json.loads(l)["id"]: json.loads(l) for l in open("/verif/properties.jsonl") if l.strip()}
out = []
out.append(f"""You are building one property family of a verification framework whose method is machine-checked proof in Lean 4 \
(hand-written executable model + theorems, tied to the Go code by regenerated facts and a differential correspondence run). \
The code under verification is the Go repository /repo (VKCOM/tl, read-only for you). Your private git worktree of the framework is \
/root/wt/{name} (branch fam-{name}); work ONLY there (plus scratch repo worktrees under /tmp as the guide describes).

Start by reading /root/wt/{name}/AGENT_GUIDE.md completely and follow it exactly (layout, hard rules, vlib API, testing, final report). \
Then read DESIGN.md §1 and the §4 entries for your properties, and the worked example (checks/C33.py, lean/TLVerif/Prim/*, \
lean/TLVerif/Props/C33.lean, go/hprim/main.go). Run `./setup.sh` in your worktree first (≈1 min) and `./check C33` to see it work.

Your family directory name is `{fam}` (Lean namespace TLVerif.{fam}, case-line prefix `{fam.lower()}.`, harness go/h{fam.lower()}). \
The properties you own (given and fixed; do not reword them):
""")
for i in ids:
    p = props[i]
    out.append(f"### {i} — {p['title']}\nStatement: {p['statement']}\nQuantifier: {p['quantifier']['text']}\nWhy tests can't: {p['why_tests_cant']}\n"
               f"Anchors: files {', '.join(p['anchors']['files'])}; mechanisms: " + "; ".join(m['name'] + ' @ ' + m.get('where', '') for m in p['anchors']['mechanism']) +
               f"\nObserve at: {'; '.join(p['anchors'].get('observe_at') or [])}\nHook: {p['anchors'].get('hook_needed')}\n")
out.append("Specific notes for this family:\n" + notes + "\n")
out.append("""Deliver, committed on your branch: the Lean model + lemmas + Props file(s) + Driver, the Go harness, checks/Cnn.py and \
manifest.d/Cnn.json for each property you own (level_claimed.category "proof" when the property's quantified statement is a Lean theorem about the \
model and the model is tied; say precisely in level_note what is modelled vs verified and what is only explored), facts.d if any. \
State each property at full strength as theorems for ALL inputs/histories of the model (induction/invariant/refinement), not bounded checks. \
Prove as much as you can; breadth first: get an end-to-end check (model + tie + a first theorem) working within the first hour or two, then deepen \
the theorems and the generator. The check must pass on the unchanged tree for seeds 0..5 in both tiers, and catch your own mutations with a failing input. \
Finish with the final report described in the guide (it is read by the integrator, not the user). You have several hours; use them to deepen \
proofs and widen the model rather than stopping at the first green run.""")
print("\n".join(out))
