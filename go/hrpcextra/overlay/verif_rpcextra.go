//go:build verif

package rpc

// Verification hooks for the `rpcextra` family (property C40). Overlaid into pkg/rpc at build time;
// never part of a normal build. Calls the real preparePacket / ParseInvokeReq / prepareResponseBody /
// handlePacket+finishCall+parseResponseExtra and the generated ReadTL1 methods.

import (
	"context"
	"encoding/hex"
	"errors"
	"fmt"
	"io"
	"math"
	"net"
	"reflect"
	"sort"
	"strconv"
	"strings"
	"sync"
	"time"
	"unsafe"

	"github.com/VKCOM/tl/pkg/rpc/internal/gen/tl"
	"github.com/VKCOM/tl/pkg/rpc/internal/gen/tlexactlyOnce"
	"github.com/VKCOM/tl/pkg/rpc/internal/gen/tlnet"
	"github.com/VKCOM/tl/pkg/rpc/internal/gen/tltracing"
)

type vBad struct{}

func vU64(s string) uint64 {
	v, err := strconv.ParseUint(s, 10, 64)
	if err != nil || (len(s) > 1 && s[0] == '0') || strings.HasPrefix(s, "+") {
		panic(vBad{})
	}
	return v
}

func vU32(s string) uint32 {
	v := vU64(s)
	if v > math.MaxUint32 {
		panic(vBad{})
	}
	return uint32(v)
}

func vBool(s string) bool {
	switch s {
	case "0":
		return false
	case "1":
		return true
	}
	panic(vBad{})
}

func vHex(s string) []byte {
	if s == "-" {
		return []byte{}
	}
	b, err := hex.DecodeString(s)
	if err != nil || len(b) == 0 {
		panic(vBad{})
	}
	return b
}

func vStr(s string) string {
	if len(s) == 0 || s[0] != 'x' {
		panic(vBad{})
	}
	b, err := hex.DecodeString(s[1:])
	if err != nil {
		panic(vBad{})
	}
	return string(b)
}

func vList(s string) []string {
	if s == "-" {
		return nil
	}
	return strings.Split(s, ",")
}

func vSplit(s string, n int) []string {
	p := strings.Split(s, ":")
	if len(p) != n {
		panic(vBad{})
	}
	return p
}

func vDictLong(s string) map[string]int64 {
	var m map[string]int64
	for _, e := range vList(s) {
		p := vSplit(e, 2)
		if m == nil {
			m = map[string]int64{}
		}
		m[vStr(p[0])] = int64(vU64(p[1]))
	}
	return m
}

func vDictString(s string) map[string]string {
	var m map[string]string
	for _, e := range vList(s) {
		p := vSplit(e, 2)
		if m == nil {
			m = map[string]string{}
		}
		m[vStr(p[0])] = vStr(p[1])
	}
	return m
}

func vReqExtra(w []string) (e RequestExtra) {
	if len(w) != 14 {
		panic(vBad{})
	}
	e.Flags = vU32(w[0])
	e.RequesterId = int64(vU64(w[1]))
	e.WaitShardsBinlogPos = vDictLong(w[2])
	e.WaitBinlogPos = int64(vU64(w[3]))
	for _, s := range vList(w[4]) {
		e.StringForwardKeys = append(e.StringForwardKeys, vStr(s))
	}
	for _, s := range vList(w[5]) {
		e.IntForwardKeys = append(e.IntForwardKeys, int64(vU64(s)))
	}
	e.StringForward = vStr(w[6])
	e.IntForward = int64(vU64(w[7]))
	e.CustomTimeoutMs = int32(vU32(w[8]))
	e.SupportedCompressionVersion = int32(vU32(w[9]))
	e.RandomDelay = math.Float64frombits(vU64(w[10]))
	pq := strings.Split(w[11], ":")
	switch {
	case len(pq) == 3 && pq[0] == "p":
		e.PersistentQuery.SetPrepareRequest(tlexactlyOnce.PrepareRequest{PersistentQueryUuid: tlexactlyOnce.Uuid{Lo: int64(vU64(pq[1])), Hi: int64(vU64(pq[2]))}})
	case len(pq) == 5 && pq[0] == "c":
		e.PersistentQuery.SetCommitRequest(tlexactlyOnce.CommitRequest{
			PersistentQueryUuid: tlexactlyOnce.Uuid{Lo: int64(vU64(pq[1])), Hi: int64(vU64(pq[2]))},
			PersistentSlotUuid:  tlexactlyOnce.Uuid{Lo: int64(vU64(pq[3])), Hi: int64(vU64(pq[4]))}})
	default:
		panic(vBad{})
	}
	tc := vSplit(w[12], 5)
	e.TraceContext = tltracing.TraceContext{FieldsMask: vU32(tc[0]), TraceId: tltracing.TraceID{Lo: int64(vU64(tc[1])), Hi: int64(vU64(tc[2]))},
		ParentId: int64(vU64(tc[3])), SourceId: vStr(tc[4])}
	e.ExecutionContext = vStr(w[13])
	return e
}

func vResExtra(w []string) (e ResponseExtra) {
	if len(w) != 12 {
		panic(vBad{})
	}
	e.Flags = vU32(w[0])
	e.BinlogPos = int64(vU64(w[1]))
	e.BinlogTime = int64(vU64(w[2]))
	p := vSplit(w[3], 3)
	e.EnginePid = tlnet.Pid{Ip: vU32(p[0]), PortPid: vU32(p[1]), Utime: vU32(p[2])}
	e.RequestSize = int32(vU32(w[4]))
	e.ResponseSize = int32(vU32(w[5]))
	e.FailedSubqueries = int32(vU32(w[6]))
	e.CompressionVersion = int32(vU32(w[7]))
	e.Stats = vDictString(w[8])
	e.ShardsBinlogPos = vDictLong(w[9])
	e.EpochNumber = int64(vU64(w[10]))
	e.ViewNumber = int64(vU64(w[11]))
	return e
}

func sHexX(s string) string { return "x" + hex.EncodeToString([]byte(s)) }

func sHexB(b []byte) string {
	if len(b) == 0 {
		return "-"
	}
	return hex.EncodeToString(b)
}

func sBool(b bool) string {
	if b {
		return "1"
	}
	return "0"
}

func sJoin(p []string) string {
	if len(p) == 0 {
		return "-"
	}
	return strings.Join(p, ",")
}

func sDictLong(m map[string]int64) string {
	keys := make([]string, 0, len(m))
	for k := range m {
		keys = append(keys, k)
	}
	sort.Strings(keys)
	var p []string
	for _, k := range keys {
		p = append(p, sHexX(k)+":"+strconv.FormatUint(uint64(m[k]), 10))
	}
	return sJoin(p)
}

func sDictString(m map[string]string) string {
	keys := make([]string, 0, len(m))
	for k := range m {
		keys = append(keys, k)
	}
	sort.Strings(keys)
	var p []string
	for _, k := range keys {
		p = append(p, sHexX(k)+":"+sHexX(m[k]))
	}
	return sJoin(p)
}

func u64s(v int64) string { return strconv.FormatUint(uint64(v), 10) }
func u32s(v int32) string { return strconv.FormatUint(uint64(uint32(v)), 10) }

func sReqExtra(e *RequestExtra) string {
	var sfk, ifk []string
	for _, s := range e.StringForwardKeys {
		sfk = append(sfk, sHexX(s))
	}
	for _, v := range e.IntForwardKeys {
		ifk = append(ifk, u64s(v))
	}
	var pq string
	if v, ok := e.PersistentQuery.AsPrepareRequest(); ok {
		pq = "p:" + u64s(v.PersistentQueryUuid.Lo) + ":" + u64s(v.PersistentQueryUuid.Hi)
	} else if v, ok := e.PersistentQuery.AsCommitRequest(); ok {
		pq = "c:" + u64s(v.PersistentQueryUuid.Lo) + ":" + u64s(v.PersistentQueryUuid.Hi) + ":" + u64s(v.PersistentSlotUuid.Lo) + ":" + u64s(v.PersistentSlotUuid.Hi)
	} else {
		pq = "?"
	}
	tc := &e.TraceContext
	return strings.Join([]string{
		strconv.FormatUint(uint64(e.Flags), 10), u64s(e.RequesterId), sDictLong(e.WaitShardsBinlogPos), u64s(e.WaitBinlogPos),
		sJoin(sfk), sJoin(ifk), sHexX(e.StringForward), u64s(e.IntForward), u32s(e.CustomTimeoutMs),
		u32s(e.SupportedCompressionVersion), strconv.FormatUint(math.Float64bits(e.RandomDelay), 10), pq,
		strconv.FormatUint(uint64(tc.FieldsMask), 10) + ":" + u64s(tc.TraceId.Lo) + ":" + u64s(tc.TraceId.Hi) + ":" + u64s(tc.ParentId) + ":" + sHexX(tc.SourceId),
		sHexX(e.ExecutionContext)}, " ")
}

func sResExtra(e *ResponseExtra) string {
	return strings.Join([]string{
		strconv.FormatUint(uint64(e.Flags), 10), u64s(e.BinlogPos), u64s(e.BinlogTime),
		fmt.Sprintf("%d:%d:%d", e.EnginePid.Ip, e.EnginePid.PortPid, e.EnginePid.Utime),
		u32s(e.RequestSize), u32s(e.ResponseSize), u32s(e.FailedSubqueries), u32s(e.CompressionVersion),
		sDictString(e.Stats), sDictLong(e.ShardsBinlogPos), u64s(e.EpochNumber), u64s(e.ViewNumber)}, " ")
}

func vErrKind(err error) string {
	if errors.Is(err, io.ErrUnexpectedEOF) {
		return "eof"
	}
	return "rej"
}

const vDefaultTimeout = time.Duration(444444440400007) // not a whole number of milliseconds

func dirtyReqExtra() RequestExtra {
	e := RequestExtra{Flags: 0xffffffff, RequesterId: 1, WaitShardsBinlogPos: map[string]int64{"dirty": 1, "": 2}, WaitBinlogPos: 2,
		StringForwardKeys: []string{"a", "b", "c"}, IntForwardKeys: []int64{1, 2, 3, 4}, StringForward: "dirty", IntForward: 3, CustomTimeoutMs: 4,
		SupportedCompressionVersion: 5, RandomDelay: 6, ExecutionContext: "dirty"}
	e.PersistentQuery.SetCommitRequest(tlexactlyOnce.CommitRequest{PersistentQueryUuid: tlexactlyOnce.Uuid{Lo: 1, Hi: 2}, PersistentSlotUuid: tlexactlyOnce.Uuid{Lo: 3, Hi: 4}})
	e.TraceContext = tltracing.TraceContext{FieldsMask: 0xff, TraceId: tltracing.TraceID{Lo: 7, Hi: 8}, ParentId: 9, SourceId: "dirty"}
	return e
}

func dirtyResExtra() ResponseExtra {
	return ResponseExtra{Flags: 0xffffffff, BinlogPos: 1, BinlogTime: 2, EnginePid: tlnet.Pid{Ip: 1, PortPid: 2, Utime: 3}, RequestSize: 4, ResponseSize: 5,
		FailedSubqueries: 6, CompressionVersion: 7, Stats: map[string]string{"dirty": "x"}, ShardsBinlogPos: map[string]int64{"dirty": 1}, EpochNumber: 8, ViewNumber: 9}
}

// server side of a request: ParseInvokeReq on a reset() context
func vParseReq(wire []byte) string {
	hctx := &HandlerContext{RequestExtra: dirtyReqExtra(), ResponseExtra: dirtyResExtra(), queryID: 77, extraStart: 5}
	hctx.actorID = 9
	hctx.bodyFormatTL2 = true
	hctx.reqTag = 3
	hctx.reset() // what releaseHandlerCtx does before the context is reused
	hctx.Request = wire
	opts := ServerOptions{DefaultResponseTimeout: vDefaultTimeout}
	if err := hctx.ParseInvokeReq(&opts); err != nil {
		return vErrKind(err)
	}
	to := "d"
	if hctx.timeout != vDefaultTimeout {
		to = strconv.FormatInt(int64(hctx.timeout/time.Millisecond), 10)
	}
	return fmt.Sprintf("ok %d %d %s %d %s %d %s %s %s", uint64(hctx.queryID), uint64(hctx.actorID), sBool(hctx.bodyFormatTL2), hctx.reqTag,
		sBool(hctx.noResult), vMask(hctx), to, sHexB(hctx.Request), sReqExtra(&hctx.RequestExtra))
}

// client side of a response: the real handlePacket -> finishCall -> parseResponseExtra on a bare clientConn
func vParseResp(tl2 bool, wire []byte) string {
	cctx := &Response{bodyFormatTL2: tl2}
	cctx.result = make(chan callResult, 1)
	pc := &clientConn{calls: map[int64]*Response{}}
	if len(wire) >= 8 {
		var header tl.RpcReqResultHeader
		_, _ = header.ReadTL1(wire)
		cctx.queryID = header.QueryId
		pc.calls[header.QueryId] = cctx
		pc.inFlight = 1
	}
	_, _, _, _, err := pc.handlePacket(tl.RpcReqResultHeader{}.TLTag(), nil, wire)
	if err != nil {
		return vErrKind(err)
	}
	var res callResult
	select {
	case res = <-cctx.result:
	default:
		return "lost"
	}
	if res.resp != cctx || len(pc.calls) != 0 || pc.inFlight != 0 {
		return "bookkeeping"
	}
	outcome := "ok"
	if res.err != nil {
		var re *Error
		if e, ok := res.err.(*Error); ok {
			re = e
		} else {
			return vErrKind(res.err)
		}
		outcome = "e:" + u32s(re.Code) + ":" + sHexX(re.Description)
	}
	return fmt.Sprintf("ok %d %s %s %s", uint64(cctx.queryID), sHexB(cctx.Body), outcome, sResExtra(&cctx.Extra))
}

func vErrPrefix(s string) string {
	if s == "eof" || s == "rej" {
		return "err " + s
	}
	return s
}

func vWire(buf []byte, extraStart int) []byte {
	w := append([]byte{}, buf[extraStart:]...)
	return append(w, buf[:extraStart]...)
}

// ---- end-to-end loopback: a real rpc.Server and rpc.Client over TCP on 127.0.0.1

// The snapshot of the request's extra flags taken by ParseInvokeReq is a private field; it is read through reflection so
// that a refactoring which removes or renames it does not take the whole correspondence down (the harness then falls back to
// the public RequestExtra.Flags, and the end-to-end legs decide whether extras still arrive unchanged).
func vMaskField(hctx *HandlerContext) (reflect.Value, bool) {
	for _, root := range []reflect.Value{reflect.ValueOf(hctx).Elem()} {
		if f := root.FieldByName("requestExtraFieldsmask"); f.IsValid() && f.Kind() == reflect.Uint32 {
			return reflect.NewAt(f.Type(), unsafe.Pointer(f.UnsafeAddr())).Elem(), true
		}
	}
	return reflect.Value{}, false
}

func vMask(hctx *HandlerContext) uint32 {
	if f, ok := vMaskField(hctx); ok {
		return uint32(f.Uint())
	}
	return hctx.RequestExtra.Flags
}

func vSetMask(hctx *HandlerContext, m uint32) {
	if f, ok := vMaskField(hctx); ok {
		f.SetUint(uint64(m))
		return
	}
	hctx.RequestExtra.Flags = m
}

type vCanceller struct{}

func (vCanceller) CancelLongpoll(LongpollHandle) {}
func (vCanceller) WriteEmptyResponse(LongpollHandle, *HandlerContext) error {
	return ErrLongpollNoEmptyResponse
}

type vScript struct {
	longpoll bool
	body  []byte
	extra ResponseExtra
	err   error
	seen  string // what the handler saw
	calls int
}

var (
	vMu     sync.Mutex
	vCur    *vScript
	vSrv    *Server
	vCli    Client
	vAddr   string
	vE2EErr error
	vStuck  bool
)

func vHandler(_ context.Context, hctx *HandlerContext) error {
	vMu.Lock()
	sc := vCur
	vMu.Unlock()
	if sc == nil {
		return ErrNoHandler
	}
	to := "d"
	if hctx.timeout != vDefaultTimeout {
		to = strconv.FormatInt(int64(hctx.timeout/time.Millisecond), 10)
	}
	sc.calls++
	sc.seen = fmt.Sprintf("%d %s %d %s %d %s %s %s", uint64(hctx.ActorID()), sBool(hctx.BodyFormatTL2()), hctx.RequestTag(),
		sBool(hctx.noResult), vMask(hctx), to, sHexB(hctx.Request), sReqExtra(&hctx.RequestExtra))
	if sc.longpoll {
		// answer through the long-poll path: the HandlerContext handed out by FinishLongpoll is a fresh one restored from
		// what toLongpollContext saved
		lh, err := hctx.StartLongpoll(vCanceller{})
		if err != nil {
			return err
		}
		go func() {
			h, ok := lh.FinishLongpoll()
			if !ok {
				return
			}
			h.Response = append(h.Response[:0], sc.body...)
			h.ResponseExtra = sc.extra
			h.SendLongpollResponse(sc.err)
		}()
		return nil
	}
	hctx.Response = append(hctx.Response[:0], sc.body...)
	hctx.ResponseExtra = sc.extra
	return sc.err
}

// long polls may only be started from the SyncHandler; every other scripted call falls through to the ordinary handler
func vSyncHandler(ctx context.Context, hctx *HandlerContext) error {
	vMu.Lock()
	sc := vCur
	vMu.Unlock()
	if sc == nil || !sc.longpoll {
		return ErrNoHandler
	}
	return vHandler(ctx, hctx)
}

func vStartE2E() error {
	if vSrv != nil || vE2EErr != nil {
		return vE2EErr
	}
	ln, err := net.Listen("tcp4", "127.0.0.1:0")
	if err != nil {
		vE2EErr = err
		return err
	}
	quiet := func(string, ...any) {}
	vSrv = NewServer(ServerWithHandler(vHandler), ServerWithSyncHandler(vSyncHandler), ServerWithLogf(quiet), ServerWithDefaultResponseTimeout(vDefaultTimeout),
		ServerWithTrustedSubnetGroups([][]string{{"127.0.0.0/8"}}))
	go func() { _ = vSrv.Serve(ln) }()
	vAddr = ln.Addr().String()
	vCli = NewClient(ClientWithLogf(quiet), ClientWithTrustedSubnetGroups([][]string{{"127.0.0.0/8"}}))
	return nil
}

func VerifRpcextraClose() {
	if vStuck {
		return
	}
	if vCli != nil {
		_ = vCli.Close()
	}
	if vSrv != nil {
		_ = vSrv.Close()
	}
}

func vHandlerErr(w string) (error, bool) {
	e := strings.Split(w, ":")
	switch {
	case w == "-":
		return nil, true
	case w == "n":
		return ErrNoHandler, true
	case len(e) == 3 && e[0] == "e":
		return &Error{Code: int32(vU32(e[1])), Description: vStr(e[2])}, true
	case len(e) == 3 && e[0] == "w":
		return fmt.Errorf("handler failed: %w", &Error{Code: int32(vU32(e[1])), Description: vStr(e[2])}), true
	case len(e) == 2 && e[0] == "o":
		return errors.New(vStr(e[1])), true
	}
	return nil, false
}

// rpcextra.e2e <actor> <tl2> <body> <14 reqextra> <err> <respbody> <12 resextra>
func vE2E(a []string, longpoll bool) string {
	if err := vStartE2E(); err != nil {
		return "e2e-unavailable"
	}
	herr, ok := vHandlerErr(a[17])
	if !ok {
		return "bad-op"
	}
	sc := &vScript{longpoll: longpoll, body: vHex(a[18]), extra: vResExtra(a[19:]), err: herr}
	req := vCli.GetRequest()
	req.Body = append(req.Body[:0], vHex(a[2])...)
	req.ActorID = int64(vU64(a[0]))
	req.BodyFormatTL2 = vBool(a[1])
	req.Extra = vReqExtra(a[3:17])
	vMu.Lock()
	vCur = sc
	vMu.Unlock()
	if vStuck {
		return "timeout"
	}
	type doRes struct {
		resp *Response
		err  error
	}
	ch := make(chan doRes, 1)
	go func() {
		resp, err := vCli.Do(context.Background(), "tcp4", vAddr, req) // no deadline: a context deadline would be written into the extra
		ch <- doRes{resp, err}
	}()
	var resp *Response
	var err error
	select {
	case r := <-ch:
		resp, err = r.resp, r.err
	case <-time.After(20 * time.Second):
		vStuck = true // the call never completes (e.g. the server dropped the request): do not wait again in this process
		return "timeout"
	}
	vMu.Lock()
	vCur = nil
	vMu.Unlock()
	defer vCli.PutResponse(resp)
	if sc.calls == 0 {
		if err != nil {
			return "refused"
		}
		return "no-handler-call"
	}
	if sc.calls != 1 {
		return "handler-called-twice"
	}
	outcome := "ok"
	if err != nil {
		re, ok := err.(*Error)
		if !ok {
			return "ok " + sc.seen + " | " + vErrKind(err)
		}
		outcome = "e:" + u32s(re.Code) + ":" + sHexX(re.Description)
	}
	return fmt.Sprintf("ok %s | %s %s %s", sc.seen, sHexB(resp.Body), outcome, sResExtra(&resp.Extra))
}

var (
	vFwdOut, vFwdIn *PacketConn
	vFwdErr         error
)

// a handshaken PacketConn pair over TCP 127.0.0.1 (proxy -> final server)
func vStartFwd() error {
	if vFwdOut != nil || vFwdErr != nil {
		return vFwdErr
	}
	ln, err := net.Listen("tcp4", "127.0.0.1:0")
	if err != nil {
		vFwdErr = err
		return err
	}
	defer ln.Close()
	type acc struct {
		c   net.Conn
		err error
	}
	ch := make(chan acc, 1)
	go func() {
		c, err := ln.Accept()
		ch <- acc{c, err}
	}()
	ca, err := net.Dial("tcp4", ln.Addr().String())
	if err != nil {
		vFwdErr = err
		return err
	}
	sa := <-ch
	if sa.err != nil {
		vFwdErr = sa.err
		return sa.err
	}
	out := NewPacketConn(ca, 1<<16, 1<<16)
	in := NewPacketConn(sa.c, 1<<16, 1<<16)
	hs := make(chan error, 1)
	go func() {
		_, _, err := in.HandshakeServer(nil, nil, false, 0, 10*time.Second)
		hs <- err
	}()
	if err := out.HandshakeClient("", nil, false, 0, 0, 10*time.Second, DefaultProtocolVersion); err != nil {
		vFwdErr = err
		return err
	}
	if err := <-hs; err != nil {
		vFwdErr = err
		return err
	}
	vFwdOut, vFwdIn = out, in
	return nil
}

// proxy hop: ParseInvokeReq on the proxy, then the real HandlerContext.ForwardAndFlush onto a PacketConn (net.Pipe),
// the packet is read back with PacketConn.ReadPacket and parsed by the final server
func vForward(wire []byte) string {
	hctx := &HandlerContext{}
	hctx.Request = wire
	opts := ServerOptions{DefaultResponseTimeout: vDefaultTimeout}
	if err := hctx.ParseInvokeReq(&opts); err != nil {
		return "proxy-" + vErrKind(err)
	}
	if err := vStartFwd(); err != nil {
		return "fwd-unavailable"
	}
	out, in := vFwdOut, vFwdIn
	type rd struct {
		tip  uint32
		body []byte
		err  error
	}
	ch := make(chan rd, 1)
	go func() {
		tip, body, err := in.ReadPacket(nil, 10*time.Second)
		ch <- rd{tip, body, err}
	}()
	if err := hctx.ForwardAndFlush(out, tl.RpcInvokeReqHeader{}.TLTag(), 10*time.Second); err != nil {
		return "fwd-big"
	}
	r := <-ch
	if r.err != nil {
		return "fwd-read-error"
	}
	if r.tip != (tl.RpcInvokeReqHeader{}.TLTag()) {
		return "fwd-wrong-packet-type"
	}
	return vParseReq(r.body)
}

func VerifRpcextraHandle(line string) (res string) {
	defer func() {
		if r := recover(); r != nil {
			if _, ok := r.(vBad); ok {
				res = "bad-op"
			} else {
				res = "panic"
			}
		}
	}()
	f := strings.Fields(line)
	if len(f) == 0 {
		return "bad-op"
	}
	op, a := f[0], f[1:]
	switch {
	case op == "rpcextra.req" && len(a) == 18:
		body := vHex(a[3])
		req := &Request{Body: append(make([]byte, 0, len(body)), body...), ActorID: int64(vU64(a[1])), Extra: vReqExtra(a[4:]), BodyFormatTL2: vBool(a[2])}
		req.queryID = int64(vU64(a[0]))
		if err := preparePacket(req); err != nil {
			return "big"
		}
		return fmt.Sprintf("ok %s %d %s", sHexB(req.Body), req.extraStart, vParseReq(vWire(req.Body, req.extraStart)))
	case op == "rpcextra.fwd" && len(a) == 18:
		body := vHex(a[3])
		req := &Request{Body: append(make([]byte, 0, len(body)), body...), ActorID: int64(vU64(a[1])), Extra: vReqExtra(a[4:]), BodyFormatTL2: vBool(a[2])}
		req.queryID = int64(vU64(a[0]))
		if err := preparePacket(req); err != nil {
			return "big"
		}
		return vErrPrefix(vForward(vWire(req.Body, req.extraStart)))
	case op == "rpcextra.reqbig" && len(a) == 18:
		n := vU64(a[0])
		if n < 4 || n > 1<<26 {
			return "bad-op"
		}
		body := make([]byte, n, n+256)
		copy(body, []byte{1, 2, 3, 4})
		req := &Request{Body: body, ActorID: int64(vU64(a[2])), Extra: vReqExtra(a[4:]), BodyFormatTL2: vBool(a[3])}
		req.queryID = int64(vU64(a[1]))
		if err := preparePacket(req); err != nil {
			return "big"
		}
		total, es := len(req.Body), req.extraStart
		hctx := &HandlerContext{}
		hctx.Request = vWire(req.Body, req.extraStart)
		opts := ServerOptions{DefaultResponseTimeout: vDefaultTimeout}
		if err := hctx.ParseInvokeReq(&opts); err != nil {
			return fmt.Sprintf("ok %d %d %s", total, es, vErrKind(err))
		}
		return fmt.Sprintf("ok %d %d ok %d %s", total, es, len(hctx.Request), sReqExtra(&hctx.RequestExtra))
	case op == "rpcextra.parse" && len(a) == 1:
		return vErrPrefix(vParseReq(vHex(a[0])))
	case op == "rpcextra.resp" && len(a) == 19:
		hctx := &HandlerContext{}
		hctx.queryID = int64(vU64(a[0]))
		vSetMask(hctx, vU32(a[1]))
		hctx.bodyFormatTL2 = vBool(a[2])
		hctx.noResult = vBool(a[3])
		hctx.reqTag = vU32(a[4])
		var herr error
		e := strings.Split(a[5], ":")
		switch {
		case a[5] == "-":
		case a[5] == "n":
			herr = ErrNoHandler
		case len(e) == 3 && e[0] == "e":
			herr = &Error{Code: int32(vU32(e[1])), Description: vStr(e[2])}
		case len(e) == 3 && e[0] == "w":
			herr = fmt.Errorf("handler failed: %w", &Error{Code: int32(vU32(e[1])), Description: vStr(e[2])})
		case len(e) == 2 && e[0] == "o":
			herr = errors.New(vStr(e[1]))
		default:
			return "bad-op"
		}
		body := vHex(a[6])
		hctx.Response = append(make([]byte, 0, len(body)), body...)
		hctx.ResponseExtra = vResExtra(a[7:])
		err := hctx.prepareResponseBody(herr)
		if hctx.noResult {
			if err != nil {
				return "nores-err"
			}
			return "nores"
		}
		if err != nil {
			return "big"
		}
		return fmt.Sprintf("ok %s %d %d %s", sHexB(hctx.Response), hctx.extraStart, hctx.ResponseExtra.Flags, vParseResp(hctx.bodyFormatTL2, vWire(hctx.Response, hctx.extraStart)))
	case op == "rpcextra.e2e" && len(a) == 31:
		return vE2E(a, false)
	case op == "rpcextra.e2el" && len(a) == 31: // the same call answered through StartLongpoll/FinishLongpoll/SendLongpollResponse
		return vE2E(a, true)
	case op == "rpcextra.rparse" && len(a) == 2:
		return vErrPrefix(vParseResp(vBool(a[0]), vHex(a[1])))
	case op == "rpcextra.xread" && len(a) == 1:
		w := vHex(a[0])
		e := dirtyReqExtra()
		rest, err := e.ReadTL1(w)
		if err != nil {
			return "err " + vErrKind(err)
		}
		return fmt.Sprintf("ok %d %s", len(w)-len(rest), sReqExtra(&e))
	case op == "rpcextra.yread" && len(a) == 1:
		w := vHex(a[0])
		e := dirtyResExtra()
		rest, err := e.ReadTL1(w)
		if err != nil {
			return "err " + vErrKind(err)
		}
		return fmt.Sprintf("ok %d %s", len(w)-len(rest), sResExtra(&e))
	}
	return "bad-op"
}
