//go:build verif

// Harness for the `rpcextra` family: one case line in, one canonical result line out.
// All the work is done inside package rpc (overlay file verif_rpcextra.go) because the code under
// test and the generated extras types are unexported / internal to pkg/rpc.
package main

import (
	"bufio"
	"os"

	"github.com/VKCOM/tl/pkg/rpc"
)

func main() {
	in := bufio.NewReaderSize(os.Stdin, 1<<20)
	out := bufio.NewWriterSize(os.Stdout, 1<<20)
	defer out.Flush()
	for {
		line, err := in.ReadString('\n')
		if len(line) > 0 {
			for len(line) > 0 && (line[len(line)-1] == '\n' || line[len(line)-1] == '\r') {
				line = line[:len(line)-1]
			}
			out.WriteString(rpc.VerifRpcextraHandle(line))
			out.WriteByte('\n')
		}
		if err != nil {
			break
		}
	}
	rpc.VerifRpcextraClose()
}
