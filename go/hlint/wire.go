//go:build verif

package main

import (
	"encoding/hex"
	"fmt"
	"io"
	"os"
	"path/filepath"

	"github.com/VKCOM/tl/internal/pure"
	"github.com/VKCOM/tl/internal/pure/onthefly"
)

// compiled schemas are cached by their token encoding (a pair is usually followed by many value lines)
var kernels = map[string]*pure.Kernel{}
var kernelErr = map[string]bool{}
var tmpDir string

func compile(enc string) *pure.Kernel {
	if k, ok := kernels[enc]; ok {
		return k
	}
	if kernelErr[enc] {
		return nil
	}
	if len(kernels) > 64 {
		kernels = map[string]*pure.Kernel{}
		kernelErr = map[string]bool{}
	}
	text, ok := renderSchema(enc)
	if !ok {
		kernelErr[enc] = true
		return nil
	}
	if tmpDir == "" {
		d, err := os.MkdirTemp("", "hlint")
		if err != nil {
			return nil
		}
		tmpDir = d
	}
	file := filepath.Join(tmpDir, "s.tl")
	if err := os.WriteFile(file, []byte(text), 0o644); err != nil {
		return nil
	}
	k := pure.NewKernel(&pure.OptionsKernel{ErrorWriter: io.Discard})
	if err := k.AddFileTL1(file); err != nil {
		kernelErr[enc] = true
		return nil
	}
	if err := k.Compile(); err != nil {
		if os.Getenv("HLINT_DEBUG") != "" {
			fmt.Fprintf(os.Stderr, "kernel: %v\n", err)
		}
		kernelErr[enc] = true
		return nil
	}
	kernels[enc] = k
	return k
}

// decode `bytes` as a value of `root` (a constructor: bare; a function: boxed) and re-encode it
func rewrite(k *pure.Kernel, root string, data []byte) (res string) {
	defer func() {
		if r := recover(); r != nil {
			res = "panic"
		}
	}()
	var v onthefly.KernelValue
	bare := true
	if f := k.GetFunctionInstance(root); f != nil && f.ResultType() != nil {
		st := onthefly.CreateValueStruct(f)
		v = &st
		bare = false
	} else {
		ins := k.GetObjectInstance(root)
		if ins == nil {
			return "noroot"
		}
		v = onthefly.CreateValue(ins)
	}
	rest, _, err := v.ReadTL1(data, nil, bare, nil)
	if err != nil || len(rest) != 0 {
		return "err"
	}
	var bb onthefly.ByteBuilder
	v.WriteTL1(&bb, bare, nil, false, 0, nil)
	return hx(bb.Buf())
}

func hx(b []byte) string {
	if len(b) == 0 {
		return "-"
	}
	return hex.EncodeToString(b)
}

func handleWire(op string, args []string) string {
	switch {
	case op == "lint.kernel" && len(args) == 1: // implementation only: does the kernel accept the schema?
		if compile(args[0]) == nil {
			return "err"
		}
		return "ok"
	case op == "lint.wire" && len(args) == 5:
		var data []byte
		if args[4] != "-" {
			d, err := hex.DecodeString(args[4])
			if err != nil {
				return "bad-op"
			}
			data = d
		}
		ko := compile(args[0])
		kn := compile(args[1])
		if ko == nil || kn == nil {
			return "nokernel"
		}
		a := rewrite(ko, args[2], data)
		if a == "err" || a == "noroot" || a == "panic" {
			return "novalue-" + a
		}
		return "ok " + a + " " + rewrite(kn, args[2], data)
	}
	return "bad-op"
}
