//go:build verif

package main

import (
	"context"
	"encoding/hex"
	"os/exec"
	"strings"
	"syscall"
	"time"
	"fmt"
	"io"
	"os"
	"path/filepath"

	"github.com/VKCOM/tl/internal/pure"
	"github.com/VKCOM/tl/internal/pure/onthefly"
)

// compiled schemas are cached by their token encoding (a pair is usually followed by many value lines)
var kernels = map[string]*pure.Kernel{}
var consOfType = map[string]map[string][]string{} // schema -> type name -> constructor names
var kernelErr = map[string]bool{}
var tmpDir string

func compile(enc string) *pure.Kernel {
	if k, ok := kernels[enc]; ok {
		return k
	}
	if kernelErr[enc] {
		return nil
	}
	if len(kernels) > 64 {
		// drop the oldest half would need bookkeeping; a full reset is fine, but keep the type tables (small),
		// because a caller may still hold a kernel of an evicted schema
		kernels = map[string]*pure.Kernel{}
		kernelErr = map[string]bool{}
	}
	text, ok := renderSchema(enc)
	if !ok {
		kernelErr[enc] = true
		return nil
	}
	if tmpDir == "" {
		d, err := os.MkdirTemp("", "hlint")
		if err != nil {
			return nil
		}
		tmpDir = d
	}
	file := filepath.Join(tmpDir, "s.tl")
	if err := os.WriteFile(file, []byte(text), 0o644); err != nil {
		return nil
	}
	k := pure.NewKernel(&pure.OptionsKernel{ErrorWriter: io.Discard, TypesWhiteList: "*"})
	if err := k.AddFileTL1(file); err != nil {
		kernelErr[enc] = true
		return nil
	}
	if err := k.Compile(); err != nil {
		if os.Getenv("HLINT_DEBUG") != "" {
			fmt.Fprintf(os.Stderr, "kernel: %v\n", err)
		}
		kernelErr[enc] = true
		return nil
	}
	kernels[enc] = k
	ct := map[string][]string{}
	for _, f := range k.TL1() {
		if !f.IsFunction && !f.Builtin {
			ct[f.TypeDecl.Name.String()] = append(ct[f.TypeDecl.Name.String()], f.Construct.Name.String())
		}
	}
	consOfType[enc] = ct
	return k
}

// decode `data` as a boxed value of `root` (a type name, or a function name) and re-encode it.
// zeroMask: for functions, a failed read is retried with an appended zero field mask ("appended arguments:
// the appended field mask is read as zero"); the re-encoding must then be data ++ 00000000.
func rewrite(enc string, k *pure.Kernel, root string, data []byte, zeroMask bool) (res string) {
	defer func() {
		if r := recover(); r != nil {
			res = "panic"
		}
	}()
	mk := func() onthefly.KernelValue {
		if f := k.GetFunctionInstance(root); f != nil && f.ResultType() != nil {
			st := onthefly.CreateValueStruct(f)
			return &st
		}
		if ins := k.GetObjectInstance(root); ins != nil {
			return onthefly.CreateValue(ins)
		}
		if cs := consOfType[enc][root]; len(cs) == 1 {
			if ins := k.GetObjectInstance(cs[0]); ins != nil {
				return onthefly.CreateValue(ins)
			}
		}
		return nil
	}
	try := func(d []byte) (string, bool) {
		v := mk()
		if v == nil {
			return "noroot", false
		}
		rest, _, err := v.ReadTL1(d, nil, false, nil)
		if err != nil || len(rest) != 0 {
			return "err", false
		}
		var bb onthefly.ByteBuilder
		v.WriteTL1(&bb, false, nil, false, 0, nil)
		return string(bb.Buf()), true
	}
	out, ok := try(data)
	if ok {
		return hx([]byte(out))
	}
	if out == "err" && zeroMask {
		if f := k.GetFunctionInstance(root); f != nil && f.ResultType() != nil {
			padded := append(append([]byte{}, data...), 0, 0, 0, 0)
			if out2, ok2 := try(padded); ok2 && out2 == string(padded) {
				return hx(data)
			}
		}
	}
	return out
}

func rewriteInChild(enc, root, hexdata string) string {
	ctx, cancel := context.WithTimeout(context.Background(), 6*time.Second)
	defer cancel()
	cmd := exec.CommandContext(ctx, os.Args[0], "-rewrite", enc, root, hexdata)
	out, err := cmd.Output()
	if err != nil {
		return "err"
	}
	return strings.TrimSpace(string(out))
}

// child mode: `hlint -rewrite <schema> <root> <hex>` prints the re-encoding under an address-space limit
func childMain(args []string) {
	_ = syscall.Setrlimit(syscall.RLIMIT_AS, &syscall.Rlimit{Cur: 1 << 30, Max: 1 << 30})
	realOut := os.Stdout
	if devnull, err := os.OpenFile(os.DevNull, os.O_WRONLY, 0); err == nil {
		os.Stdout = devnull
	}
	var data []byte
	if args[2] != "-" {
		data, _ = hex.DecodeString(args[2])
	}
	k := compile(args[0])
	if k == nil {
		fmt.Fprintln(realOut, "err")
		return
	}
	fmt.Fprintln(realOut, rewrite(args[0], k, args[1], data, true))
}

func hx(b []byte) string {
	if len(b) == 0 {
		return "-"
	}
	return hex.EncodeToString(b)
}

func handleWire(op string, args []string) string {
	switch {
	case op == "lint.kernel" && len(args) == 1: // implementation only: does the kernel accept the schema?
		if compile(args[0]) == nil {
			return "err"
		}
		return "ok"
	case op == "lint.instances" && len(args) == 1: // debugging aid
		k := compile(args[0])
		if k == nil {
			return "err"
		}
		res := "ok"
		for _, t := range k.AllTypeInstances() {
			res += " " + t.CanonicalName()
		}
		return res
	case op == "lint.wire" && len(args) == 6:
		var data []byte
		if args[4] != "-" {
			d, err := hex.DecodeString(args[4])
			if err != nil {
				return "bad-op"
			}
			data = d
		}
		ko := compile(args[0])
		kn := compile(args[1])
		if ko == nil || kn == nil {
			return "nokernel"
		}
		a := rewrite(args[0], ko, args[2], data, false)
		if a == "err" || a == "noroot" || a == "panic" {
			return "novalue-" + a
		}
		if args[5] == "r" {
			// the model predicts a mismatch: the bytes may be misread as huge array sizes by the new schema
			// (onthefly allocates without a sanity check), so decode in a child process with an address-space limit
			return "ok " + a + " " + rewriteInChild(args[1], args[2], args[4])
		}
		return "ok " + a + " " + rewrite(args[1], kn, args[2], data, true)
	}
	return "bad-op"
}
