//go:build verif

package main

func handleWire(op string, args []string) string {
	return "bad-op"
}
