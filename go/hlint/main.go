//go:build verif

// Harness for the `lint` family: feeds schema pairs (token encoding, see checks/lintlib.py) to the real
// tlcodegen.CheckBackwardCompatibility through the real TL1 parser, and (wire ops) to the dynamic
// interpreter internal/pure/onthefly compiled from the same schema texts.
package main

import (
	"bufio"
	"encoding/hex"
	"fmt"
	"os"
	"path/filepath"
	"strconv"
	"strings"

	"github.com/VKCOM/tl/internal/tlast"
	"github.com/VKCOM/tl/internal/tlcodegen"
)

// ---------------------------------------------------------------- token decoding -> TL text

type tokReader struct {
	t   []string
	pos int
	bad bool
}

func (r *tokReader) next() string {
	if r.pos >= len(r.t) {
		r.bad = true
		return ""
	}
	s := r.t[r.pos]
	r.pos++
	return s
}

func (r *tokReader) num() int {
	s := r.next()
	n, err := strconv.Atoi(s)
	if err != nil || n < 0 || n > 100000 {
		r.bad = true
		return 0
	}
	return n
}

func nm(s string) string {
	if s == "~" {
		return ""
	}
	return s
}

// renders a type reference; top = true for function results (no round brackets allowed at top level)
func (r *tokReader) typeRef(top bool) string {
	name := nm(r.next())
	bare := r.next() == "1"
	na := r.num()
	var args []string
	for i := 0; i < na && !r.bad; i++ {
		if r.pos < len(r.t) && strings.HasPrefix(r.t[r.pos], "=") {
			args = append(args, r.next()[1:])
		} else {
			args = append(args, r.typeRef(false))
		}
	}
	p := ""
	if bare {
		p = "%"
	}
	if len(args) == 0 {
		return p + name
	}
	if top {
		if bare {
			return p + name + "<" + strings.Join(args, ",") + ">"
		}
		return name + " " + strings.Join(args, " ")
	}
	return p + "(" + name + " " + strings.Join(args, " ") + ")"
}

func (r *tokReader) field() string {
	var sb strings.Builder
	name := nm(r.next())
	if name != "" {
		sb.WriteString(name + ":")
	}
	m := r.next()
	if m == "m" {
		mn := r.next()
		bit := r.num()
		sb.WriteString(fmt.Sprintf("%s.%d?", mn, bit))
	} else if m != "-" {
		r.bad = true
	}
	rep := r.next()
	switch rep {
	case "-":
		sb.WriteString(r.typeRef(false))
		return sb.String()
	case "ri":
	case "ra":
		sb.WriteString(strconv.Itoa(r.num()) + "*")
	case "rv":
		sb.WriteString(r.next() + "*")
	default:
		r.bad = true
	}
	sb.WriteString("[" + r.typeRef(false) + "]")
	// the (empty) field type of a repeated field is still present in the encoding
	if nm(r.next()) != "" || r.next() != "0" || r.next() != "0" {
		r.bad = true
	}
	return sb.String()
}

func (r *tokReader) schema() string {
	n := r.num()
	var lines []string
	inFuncs := false
	for i := 0; i < n && !r.bad; i++ {
		kind := r.next()
		name := r.next()
		tag := r.next()
		tyName := nm(r.next())
		var sb strings.Builder
		if kind == "f" {
			sb.WriteString("@any ")
		}
		sb.WriteString(name)
		if strings.HasPrefix(tag, "x") {
			sb.WriteString("#" + tag[1:])
		} else if !strings.HasPrefix(tag, "i") {
			r.bad = true
		}
		nt := r.num()
		var targs []string
		for j := 0; j < nt && !r.bad; j++ {
			tn := r.next()
			k := r.next()
			targs = append(targs, tn)
			if k == "n" {
				sb.WriteString(" {" + tn + ":#}")
			} else {
				sb.WriteString(" {" + tn + ":Type}")
			}
		}
		nf := r.num()
		for j := 0; j < nf && !r.bad; j++ {
			sb.WriteString(" " + r.field())
		}
		res := r.typeRef(true)
		switch kind {
		case "b":
			sb.WriteString(" ? = " + tyName)
		case "t":
			sb.WriteString(" = " + tyName)
			for _, a := range targs {
				sb.WriteString(" " + a)
			}
		case "f":
			sb.WriteString(" = " + res)
		default:
			r.bad = true
		}
		sb.WriteString(";")
		if (kind == "f") != inFuncs {
			inFuncs = kind == "f"
			if inFuncs {
				lines = append(lines, "---functions---")
			} else {
				lines = append(lines, "---types---")
			}
		}
		lines = append(lines, sb.String())
	}
	if r.pos != len(r.t) {
		r.bad = true
	}
	return strings.Join(lines, "\n") + "\n"
}

func renderSchema(enc string) (string, bool) {
	r := &tokReader{t: strings.Split(enc, ",")}
	s := r.schema()
	return s, !r.bad
}

// ---------------------------------------------------------------- real AST -> tokens

func dn(s string) string {
	if s == "" {
		return "~"
	}
	return s
}

func dumpTypeRef(out *[]string, t tlast.TypeRef) {
	b := "0"
	if t.Bare {
		b = "1"
	}
	*out = append(*out, dn(t.Type.String()), b, strconv.Itoa(len(t.Args)))
	for _, a := range t.Args {
		if a.IsArith {
			*out = append(*out, "="+strconv.FormatUint(uint64(a.Arith.Res), 10))
		} else {
			dumpTypeRef(out, a.T)
		}
	}
}

func dumpSchema(tl []*tlast.Combinator) (string, error) {
	out := []string{strconv.Itoa(len(tl))}
	for _, c := range tl {
		kind := "t"
		if c.IsFunction {
			kind = "f"
		} else if c.Builtin {
			kind = "b"
		}
		tag := fmt.Sprintf("i%08x", c.Crc32())
		if c.Construct.IDExplicit {
			tag = fmt.Sprintf("x%08x", c.Crc32())
		}
		out = append(out, kind, c.Construct.Name.String(), tag, dn(c.TypeDecl.Name.String()), strconv.Itoa(len(c.TemplateArguments)))
		if !c.IsFunction {
			if len(c.TypeDecl.Arguments) != len(c.TemplateArguments) {
				return "", fmt.Errorf("type declaration arguments differ from template arguments")
			}
			for i, a := range c.TemplateArguments {
				if c.TypeDecl.Arguments[i] != a.FieldName {
					return "", fmt.Errorf("type declaration arguments differ from template arguments")
				}
			}
		}
		for _, a := range c.TemplateArguments {
			k := "t"
			if a.IsNat {
				k = "n"
			}
			out = append(out, a.FieldName, k)
		}
		out = append(out, strconv.Itoa(len(c.Fields)))
		for _, f := range c.Fields {
			if f.Excl {
				return "", fmt.Errorf("!-fields are outside the encoded fragment")
			}
			out = append(out, dn(f.FieldName))
			if f.Mask != nil {
				out = append(out, "m", f.Mask.MaskName, strconv.FormatUint(uint64(f.Mask.BitNumber), 10))
			} else {
				out = append(out, "-")
			}
			if f.IsRepeated {
				sr := f.ScaleRepeat
				if len(sr.Rep) != 1 || sr.Rep[0].FieldName != "" || sr.Rep[0].Mask != nil || sr.Rep[0].IsRepeated || sr.Rep[0].Excl {
					return "", fmt.Errorf("repeat with fields is outside the encoded fragment")
				}
				switch {
				case !sr.ExplicitScale:
					out = append(out, "ri")
				case sr.Scale.IsArith:
					out = append(out, "ra", strconv.FormatUint(uint64(sr.Scale.Arith.Res), 10))
				default:
					out = append(out, "rv", sr.Scale.Scale)
				}
				dumpTypeRef(&out, sr.Rep[0].FieldType)
			} else {
				out = append(out, "-")
			}
			dumpTypeRef(&out, f.FieldType)
		}
		dumpTypeRef(&out, c.FuncDecl)
	}
	return strings.Join(out, ","), nil
}

// with implicit tags the caller does not know the CRC: compare modulo the digits of `i........` tokens
func sameModuloImplicitTags(a, b string) bool {
	x, y := strings.Split(a, ","), strings.Split(b, ",")
	if len(x) != len(y) {
		return false
	}
	for i := range x {
		if x[i] == y[i] {
			continue
		}
		if len(x[i]) == 9 && len(y[i]) == 9 && x[i][0] == 'i' && y[i][0] == 'i' && (x[i] == "i00000000" || y[i] == "i00000000") {
			continue
		}
		return false
	}
	return true
}

func parseText(text string) ([]*tlast.Combinator, error) {
	tl, err := tlast.ParseTLFile(text, "case.tl", tlast.LexerOptions{AllowBuiltin: false, AllowDirty: false})
	if err != nil {
		return nil, err
	}
	return tl.Combinators(), nil
}

// decode tokens -> text -> real parser -> real AST; verifies that the real AST dumps back to the same tokens
func load(enc string) ([]*tlast.Combinator, string, string) {
	text, ok := renderSchema(enc)
	if !ok {
		return nil, "", "bad-op"
	}
	tl, err := parseText(text)
	if err != nil {
		return nil, text, "parse-err"
	}
	back, err := dumpSchema(tl)
	if err != nil || !sameModuloImplicitTags(back, enc) {
		if os.Getenv("HLINT_DEBUG") != "" {
			fmt.Fprintf(os.Stderr, "enc-mismatch:\n in  %s\n out %s\n text:\n%s\n", enc, back, text)
		}
		return nil, text, "enc-mismatch"
	}
	return tl, text, ""
}

func repoRoot() string {
	if r := os.Getenv("VERIF_REPO"); r != "" {
		return r
	}
	return "/repo"
}

func handle(line string) (res string) {
	defer func() {
		if r := recover(); r != nil {
			if os.Getenv("HLINT_DEBUG") != "" {
				fmt.Fprintf(os.Stderr, "panic: %v\n", r)
			}
			res = "panic"
		}
	}()
	f := strings.Fields(line)
	if len(f) == 0 {
		return "bad-op"
	}
	op, args := f[0], f[1:]
	switch {
	case op == "lint.check" && len(args) == 2:
		oldTL, _, e := load(args[0])
		if e != "" {
			return e
		}
		newTL, _, e := load(args[1])
		if e != "" {
			return e
		}
		if err := tlcodegen.CheckBackwardCompatibility(newTL, oldTL); err != nil {
			if os.Getenv("HLINT_DEBUG") != "" {
				fmt.Fprintf(os.Stderr, "rej: %v\n", err.Err)
			}
			return "rej"
		}
		return "acc"
	case op == "lint.norm" && len(args) == 1: // implementation only: fills in implicit tags
		tl, _, e := load(args[0])
		if e != "" {
			return e
		}
		s, err := dumpSchema(tl)
		if err != nil {
			return "unsupported"
		}
		return "ok " + s
	case op == "lint.text" && len(args) == 1: // implementation only: the TL text the harness feeds to the parser
		text, ok := renderSchema(args[0])
		if !ok {
			return "bad-op"
		}
		return "ok " + hex.EncodeToString([]byte(text))
	case op == "lint.parse" && len(args) == 1: // implementation only: tokens of a TL text given as hex
		data, err := hex.DecodeString(args[0])
		if err != nil {
			return "bad-op"
		}
		tl, err := parseText(string(data))
		if err != nil {
			return "parse-err"
		}
		s, err := dumpSchema(tl)
		if err != nil {
			return "unsupported"
		}
		return "ok " + s
	case op == "lint.dump" && len(args) == 1: // implementation only: tokens of a schema file of the repository
		data, err := os.ReadFile(filepath.Join(repoRoot(), args[0]))
		if err != nil {
			return "err read"
		}
		tl, err := parseText(string(data))
		if err != nil {
			return "parse-err"
		}
		s, err := dumpSchema(tl)
		if err != nil {
			return "unsupported"
		}
		return "ok " + s
	case op == "lint.wire" || op == "lint.kernel" || op == "lint.instances":
		return handleWire(op, args)
	}
	return "bad-op"
}

func main() {
	if len(os.Args) == 5 && os.Args[1] == "-rewrite" {
		childMain(os.Args[2:])
		return
	}
	in := bufio.NewReaderSize(os.Stdin, 1<<20)
	realOut := os.Stdout
	// the kernel prints progress with fmt.Printf: keep it away from the result stream
	if devnull, err := os.OpenFile(os.DevNull, os.O_WRONLY, 0); err == nil {
		os.Stdout = devnull
	}
	out := bufio.NewWriterSize(realOut, 1<<20)
	defer out.Flush()
	for {
		line, err := in.ReadString('\n')
		if len(line) > 0 {
			fmt.Fprintln(out, handle(strings.TrimRight(line, "\r\n")))
		}
		if err != nil {
			return
		}
	}
}
