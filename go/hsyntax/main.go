//go:build verif

// Harness for the `syntax` family: runs internal/tlast on the same case lines as the Lean model.
package main

import (
	"bufio"
	"bytes"
	"encoding/hex"
	"errors"
	"fmt"
	"hash/crc32"
	"os"
	"strconv"
	"strings"

	"github.com/TwiN/go-color"
	"github.com/VKCOM/tl/internal/tlast"
)

const fileName = "x.tl"

func unhex(s string) ([]byte, bool) {
	if s == "-" {
		return []byte{}, true
	}
	b, err := hex.DecodeString(s)
	return b, err == nil
}

func hx(b []byte) string {
	if len(b) == 0 {
		return "-"
	}
	return hex.EncodeToString(b)
}

func hexs(b []byte) string {
	return hex.EncodeToString(b)
}

func hexproj(s string) string {
	var b []byte
	for i := 0; i < len(s); i++ {
		if s[i] >= 0x21 && s[i] <= 0x7e {
			b = append(b, s[i])
		}
	}
	return hex.EncodeToString(b)
}

func optsOf(flags string) tlast.LexerOptions {
	o := tlast.LexerOptions{AllowBuiltin: strings.Contains(flags, "b"), AllowDirty: strings.Contains(flags, "d")}
	if strings.Contains(flags, "2") {
		o.LexerLanguage = tlast.TL2
	}
	return o
}

func posDump(p tlast.Position) string {
	off, slo, line, col := tlast.VerifPos(p)
	return fmt.Sprintf("%d.%d.%d.%d", off, slo, line, col)
}

func consoleCRC(pe *tlast.ParseError, warn bool) (res string) {
	defer func() {
		if r := recover(); r != nil {
			res = "panic"
		}
	}()
	var buf bytes.Buffer
	pe.ConsolePrint(&buf, errors.New("E"), warn)
	return fmt.Sprintf("%08x", crc32.ChecksumIEEE(buf.Bytes()))
}

func consoleText(pe *tlast.ParseError, warn bool) (res string, ok bool) {
	defer func() {
		if r := recover(); r != nil {
			ok = false
		}
	}()
	var buf bytes.Buffer
	pe.ConsolePrint(&buf, errors.New("E"), warn)
	return hexs(buf.Bytes()), true
}

func errDump(text string, opts tlast.LexerOptions, err error) string {
	var pe *tlast.ParseError
	if !errors.As(err, &pe) {
		return "err nopos"
	}
	kind := "P"
	if _, _, lerr := tlast.VerifLex(text, opts); lerr != nil {
		kind = "L"
	}
	return fmt.Sprintf("err %s b=%s e=%s o=%s cp=%s cpw=%s", kind, posDump(pe.Pos.Begin), posDump(pe.Pos.End), posDump(pe.Pos.Outer),
		consoleCRC(pe, false), consoleCRC(pe, true))
}

func arithDump(a tlast.Arithmetic) string {
	var sb strings.Builder
	for i, n := range a.Nums {
		if i != 0 {
			sb.WriteByte('+')
		}
		sb.WriteString(strconv.FormatUint(uint64(n), 10))
	}
	sb.WriteByte('=')
	sb.WriteString(strconv.FormatUint(uint64(a.Res), 10))
	return sb.String()
}

func typeRefDump(t tlast.TypeRef) string {
	var sb strings.Builder
	if t.Bare {
		sb.WriteByte('%')
	}
	sb.WriteString(t.Type.String())
	if len(t.Args) != 0 {
		sb.WriteByte('<')
		for i, a := range t.Args {
			if i != 0 {
				sb.WriteByte(',')
			}
			if a.IsArith {
				sb.WriteByte('=')
				sb.WriteString(arithDump(a.Arith))
			} else {
				sb.WriteString(typeRefDump(a.T))
			}
		}
		sb.WriteByte('>')
	}
	return sb.String()
}

func fieldsDump(fs []tlast.Field) string {
	var sb strings.Builder
	for i, f := range fs {
		if i != 0 {
			sb.WriteByte(',')
		}
		sb.WriteByte('{')
		sb.WriteString(f.FieldName)
		sb.WriteByte('|')
		if f.Mask != nil {
			sb.WriteString(f.Mask.MaskName)
			sb.WriteByte('.')
			sb.WriteString(strconv.FormatUint(uint64(f.Mask.BitNumber), 10))
		}
		sb.WriteByte('|')
		if f.Excl {
			sb.WriteByte('!')
		}
		sb.WriteByte('|')
		if f.IsRepeated {
			sb.WriteByte('R')
			if f.ScaleRepeat.ExplicitScale {
				if f.ScaleRepeat.Scale.IsArith {
					sb.WriteString("a:" + arithDump(f.ScaleRepeat.Scale.Arith))
				} else {
					sb.WriteString("n:" + f.ScaleRepeat.Scale.Scale)
				}
			}
			sb.WriteByte('[')
			sb.WriteString(fieldsDump(f.ScaleRepeat.Rep))
			sb.WriteByte(']')
		} else {
			sb.WriteByte('T')
			sb.WriteString(typeRefDump(f.FieldType))
		}
		sb.WriteByte('|')
		if f.NewlineRight {
			sb.WriteByte('N')
		}
		sb.WriteByte('|')
		sb.WriteString(hexproj(f.CommentBefore))
		sb.WriteByte('|')
		sb.WriteString(hexproj(f.CommentRight))
		sb.WriteByte('}')
	}
	return sb.String()
}

func combDump(c *tlast.Combinator) string {
	var sb strings.Builder
	sb.WriteString("C[")
	if c.Builtin {
		sb.WriteByte('B')
	} else {
		sb.WriteByte('-')
	}
	if c.IsFunction {
		sb.WriteByte('F')
	} else {
		sb.WriteByte('-')
	}
	sb.WriteByte(';')
	for i, m := range c.Modifiers {
		if i != 0 {
			sb.WriteByte(',')
		}
		sb.WriteString(m.Name)
	}
	sb.WriteByte(';')
	sb.WriteString(c.Construct.Name.String())
	sb.WriteString(fmt.Sprintf("#%08x", c.Construct.ID))
	if c.Construct.IDExplicit {
		sb.WriteByte('e')
	} else {
		sb.WriteByte('i')
	}
	sb.WriteByte(';')
	for i, t := range c.TemplateArguments {
		if i != 0 {
			sb.WriteByte(',')
		}
		sb.WriteString(t.FieldName)
		if t.IsNat {
			sb.WriteString(":#")
		} else {
			sb.WriteString(":T")
		}
	}
	sb.WriteByte(';')
	sb.WriteString(fieldsDump(c.Fields))
	sb.WriteString(";t:")
	sb.WriteString(c.TypeDecl.Name.String())
	sb.WriteByte('(')
	sb.WriteString(strings.Join(c.TypeDecl.Arguments, ","))
	sb.WriteString(");f:")
	sb.WriteString(typeRefDump(c.FuncDecl))
	sb.WriteByte(';')
	sb.WriteString(hexproj(c.CommentBefore))
	sb.WriteByte(';')
	sb.WriteString(hexproj(c.CommentRight))
	sb.WriteByte(']')
	return sb.String()
}

func tlDump(tl *tlast.TL) string {
	var parts []string
	for _, cs := range tl.CS {
		if cs.C != nil {
			parts = append(parts, combDump(cs.C))
		} else if cs.S.IsFunctions {
			parts = append(parts, "Sf:"+hexproj(cs.S.CommentBefore))
		} else {
			parts = append(parts, "St:"+hexproj(cs.S.CommentBefore))
		}
	}
	parts = append(parts, "A:"+hexproj(tl.CommentAfter))
	return strings.Join(parts, " ")
}

func tokDump(toks []tlast.VerifToken) string {
	var sb strings.Builder
	for i, t := range toks {
		if i != 0 {
			sb.WriteByte(',')
		}
		fmt.Fprintf(&sb, "%d:%d:%d.%d.%d.%d", t.Type, t.Len, t.Off, t.Slo, t.Line, t.Col)
	}
	return sb.String()
}

func handle(line string) (res string) {
	defer func() {
		if r := recover(); r != nil {
			res = "panic"
		}
	}()
	f := strings.Fields(line)
	if len(f) == 0 {
		return "bad-op"
	}
	op, args := f[0], f[1:]
	if op == "syntax.colors" && len(args) == 0 {
		return fmt.Sprintf("ok %s %s %s %s %s", hexs([]byte(color.Reset)), hexs([]byte(color.Red)), hexs([]byte(color.Yellow)),
			hexs([]byte(color.White)), hexs([]byte(tlast.VerifTabSpaces())))
	}
	if op == "syntax.crc" && len(args) == 1 {
		b, ok := unhex(args[0])
		if !ok {
			return "bad-op"
		}
		return fmt.Sprintf("ok %08x", crc32.ChecksumIEEE(b))
	}
	if len(args) != 2 {
		return "bad-op"
	}
	tb, ok := unhex(args[1])
	if !ok {
		return "bad-op"
	}
	text := string(tb)
	opts := optsOf(args[0])
	switch op {
	case "syntax.lex":
		toks, rest, err := tlast.VerifLex(text, opts)
		if err != nil {
			var pe *tlast.ParseError
			if !errors.As(err, &pe) {
				return "err nopos"
			}
			return fmt.Sprintf("err L b=%s e=%s o=%s %s", posDump(pe.Pos.Begin), posDump(pe.Pos.End), posDump(pe.Pos.Outer), tokDump(toks))
		}
		return fmt.Sprintf("ok %d %s", rest, tokDump(toks))
	case "syntax.parse":
		tl, err := tlast.ParseTLFile(text, fileName, opts)
		if err != nil {
			return errDump(text, opts, err)
		}
		return "ok " + tlDump(tl)
	case "syntax.cprint":
		_, err := tlast.ParseTLFile(text, fileName, opts)
		if err == nil {
			return "ok"
		}
		var pe *tlast.ParseError
		if !errors.As(err, &pe) {
			return "err nopos"
		}
		a, ok1 := consoleText(pe, false)
		b, ok2 := consoleText(pe, true)
		if !ok1 || !ok2 {
			return "panic"
		}
		return "err " + a + " " + b
	case "syntax.canon":
		tl, err := tlast.ParseTLFile(text, fileName, opts)
		if err != nil {
			return errDump(text, opts, err)
		}
		var parts []string
		for _, c := range tl.Combinators() {
			ei := "i"
			if c.Construct.IDExplicit {
				ei = "e"
			}
			parts = append(parts, fmt.Sprintf("%08x%s:%08x:%s", c.Crc32(), ei, c.GenCrc32(), hexs([]byte(c.VerifCanonicalForm()))))
		}
		return "ok " + strings.Join(parts, " ")
	case "syntax.print":
		tl, err := tlast.ParseTLFile(text, fileName, opts)
		if err != nil {
			return errDump(text, opts, err)
		}
		return "ok " + hx([]byte(tl.String()))
	case "syntax.listing":
		tl, err := tlast.ParseTLFile(text, fileName, opts)
		if err != nil {
			return errDump(text, opts, err)
		}
		out := tl.Generate2TL()
		lines := strings.Split(out, "\n")
		if len(lines) > 0 && lines[len(lines)-1] == "" {
			lines = lines[:len(lines)-1]
		}
		var parts []string
		for i, l := range lines {
			if i >= 5 {
				if !strings.HasSuffix(l, " //  "+fileName) {
					return "ok BAD-LINE-SUFFIX " + hexs([]byte(l))
				}
				l = strings.TrimSuffix(l, " //  "+fileName)
			}
			parts = append(parts, hexs([]byte(l)))
		}
		return "ok " + strings.Join(parts, " ")
	}
	return "bad-op"
}

func main() {
	in := bufio.NewReaderSize(os.Stdin, 1<<20)
	out := bufio.NewWriterSize(os.Stdout, 1<<20)
	defer out.Flush()
	for {
		line, err := in.ReadString('\n')
		if len(line) > 0 {
			out.WriteString(handle(strings.TrimRight(line, "\r\n")))
			out.WriteByte('\n')
		}
		if err != nil {
			return
		}
	}
}
