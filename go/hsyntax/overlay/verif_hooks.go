//go:build verif

// Accessors for the verification harness (overlaid into internal/tlast at build time; never part of a normal build).
package tlast

type VerifToken struct {
	Type                int
	Len                 int
	Off, Slo, Line, Col int
}

func VerifPos(p Position) (off, slo, line, col int) {
	return p.offset, p.startLineOffset, p.line, p.column
}

// VerifLex runs the lexer alone: tokens, length of the unread rest, and the error (if any).
func VerifLex(s string, opts LexerOptions) ([]VerifToken, int, error) {
	lex := newLexer(s, "x.tl", opts)
	toks, err := lex.generateTokens()
	res := make([]VerifToken, 0, len(toks))
	for _, t := range toks {
		res = append(res, VerifToken{t.tokenType, len(t.val), t.pos.offset, t.pos.startLineOffset, t.pos.line, t.pos.column})
	}
	return res, len(lex.str), err
}

func (descriptor *Combinator) VerifCanonicalForm() string {
	return descriptor.canonicalForm()
}

func VerifTabSpaces() string { return tabSpaces }
