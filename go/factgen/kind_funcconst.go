package main

// kind "funcconst": an integer constant declared *inside* the body of function "func" ("Name" or "Recv.Name")
// found in the listed files (type-checked on their own with every import faked, like "fileconst"; use "dir": "."):
//
//	{"kind": "funcconst", "dir": ".", "files": ["pkg/basictl/basictl.go"], "func": "RandomUint", "name": "w0", "lean": "w0"}
//
// kind "tmplsites": number of occurrences of the text "name" in the string literals of function "func" (a compiled
// quicktemplate method in a *.qtpl.go file), e.g. how many `rg.IncreaseDepth()` sites a FillRandom template emits:
//
//	{"kind": "tmplsites", "dir": ".", "files": ["internal/puregen/gengo/qt_struct.qtpl.go"],
//	 "func": "TypeRWStruct.streamrandomFields", "name": "rg.IncreaseDepth()", "lean": "structIncSites"}

import (
	"flag"
	"fmt"
	"go/ast"
	"go/constant"
	"go/parser"
	"go/token"
	"go/types"
	"path/filepath"
	"strconv"
	"strings"
)

func init() {
	kinds["funcconst"] = kind_funcconst
	kinds["tmplsites"] = kind_tmplsites
	kinds["filestrconst"] = kind_filestrconst
}

// kind "filestrconst": a package-level string constant from the listed files (imports faked, "dir": ".")
func kind_filestrconst(pi *pkgInfo, sp Spec, it Item, b *strings.Builder) error {
	fset, files, err := parseListed(sp, it)
	if err != nil {
		return err
	}
	conf := types.Config{Importer: emptyImporter{}, Error: func(error) {}, FakeImportC: true}
	pkg, _ := conf.Check("filestrconst", fset, files, nil)
	if pkg == nil {
		return fmt.Errorf("%s: cannot type-check %v", sp.Family, it.Files)
	}
	c, ok := pkg.Scope().Lookup(it.Name).(*types.Const)
	if !ok || c.Val().Kind() != constant.String {
		return fmt.Errorf("%s: string constant %s not found in %v", sp.Family, it.Name, it.Files)
	}
	fmt.Fprintf(b, "def %s : String := %s\n", it.Lean, leanStr(constant.StringVal(c.Val())))
	return nil
}

func parseListed(sp Spec, it Item) (*token.FileSet, []*ast.File, error) {
	repo := "/repo"
	if f := flag.Lookup("repo"); f != nil {
		repo = f.Value.String()
	}
	if len(it.Files) == 0 {
		return nil, nil, fmt.Errorf("%s: %s %s needs \"files\"", sp.Family, it.Kind, it.Name)
	}
	fset := token.NewFileSet()
	var files []*ast.File
	for _, fn := range it.Files {
		f, err := parser.ParseFile(fset, filepath.Join(repo, fn), nil, 0)
		if err != nil {
			return nil, nil, fmt.Errorf("%s: %v", sp.Family, err)
		}
		files = append(files, f)
	}
	return fset, files, nil
}

func recvName(fd *ast.FuncDecl) string {
	if fd.Recv == nil || len(fd.Recv.List) != 1 {
		return ""
	}
	t := fd.Recv.List[0].Type
	if st, ok := t.(*ast.StarExpr); ok {
		t = st.X
	}
	if id, ok := t.(*ast.Ident); ok {
		return id.Name
	}
	return ""
}

func findFunc(files []*ast.File, name string) *ast.FuncDecl {
	recv := ""
	if i := strings.Index(name, "."); i >= 0 {
		recv, name = name[:i], name[i+1:]
	}
	for _, f := range files {
		for _, d := range f.Decls {
			if fd, ok := d.(*ast.FuncDecl); ok && fd.Name.Name == name && fd.Body != nil && recvName(fd) == recv {
				return fd
			}
		}
	}
	return nil
}

func kind_funcconst(pi *pkgInfo, sp Spec, it Item, b *strings.Builder) error {
	fset, files, err := parseListed(sp, it)
	if err != nil {
		return err
	}
	info := &types.Info{Defs: map[*ast.Ident]types.Object{}}
	conf := types.Config{Importer: emptyImporter{}, Error: func(error) {}, FakeImportC: true}
	_, _ = conf.Check("funcconst", fset, files, info)
	fd := findFunc(files, it.Func)
	if fd == nil {
		return fmt.Errorf("%s: function %s not found in %v", sp.Family, it.Func, it.Files)
	}
	var val constant.Value
	ast.Inspect(fd.Body, func(n ast.Node) bool {
		gd, ok := n.(*ast.GenDecl)
		if !ok || gd.Tok != token.CONST {
			return true
		}
		for _, s := range gd.Specs {
			vs := s.(*ast.ValueSpec)
			for _, id := range vs.Names {
				if id.Name == it.Name {
					if c, ok := info.Defs[id].(*types.Const); ok {
						val = c.Val()
					}
				}
			}
		}
		return true
	})
	if val == nil || val.Kind() == constant.Unknown {
		return fmt.Errorf("%s: constant %s not found (or not determined) in func %s of %v", sp.Family, it.Name, it.Func, it.Files)
	}
	v := constant.ToInt(val)
	if v.Kind() != constant.Int {
		return fmt.Errorf("%s: %s.%s is not an integer constant", sp.Family, it.Func, it.Name)
	}
	s := v.ExactString()
	if strings.HasPrefix(s, "-") {
		fmt.Fprintf(b, "def %s : Int := %s\n", it.Lean, s)
	} else {
		fmt.Fprintf(b, "def %s : Nat := %s\n", it.Lean, s)
	}
	return nil
}

func kind_tmplsites(pi *pkgInfo, sp Spec, it Item, b *strings.Builder) error {
	_, files, err := parseListed(sp, it)
	if err != nil {
		return err
	}
	fd := findFunc(files, it.Func)
	if fd == nil {
		return fmt.Errorf("%s: function %s not found in %v", sp.Family, it.Func, it.Files)
	}
	n := 0
	ast.Inspect(fd.Body, func(nd ast.Node) bool {
		if bl, ok := nd.(*ast.BasicLit); ok && bl.Kind == token.STRING {
			if s, err := strconv.Unquote(bl.Value); err == nil {
				n += strings.Count(s, it.Name)
			}
		}
		return true
	})
	fmt.Fprintf(b, "def %s : Nat := %d\n", it.Lean, n)
	return nil
}
