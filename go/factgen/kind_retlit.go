package main

import (
	"encoding/json"
	"fmt"
	"go/ast"
	"go/constant"
	"go/parser"
	"go/token"
	"go/types"
	"os"
	"path/filepath"
	"strings"
)

// kind "retlit": the integer constant returned by the single `return <const>` statement of method
// it.Func on receiver type it.Name (e.g. `func (RpcPing) TLTag() uint32 { return 0x5730a2df }`).
func init() {
	kinds["retlit"] = kind_retlit
}

func kind_retlit(pi *pkgInfo, sp Spec, it Item, b *strings.Builder) error {
	for _, f := range pi.files {
		for _, d := range f.Decls {
			fd, ok := d.(*ast.FuncDecl)
			if !ok || fd.Name.Name != it.Func || fd.Recv == nil || len(fd.Recv.List) != 1 || fd.Body == nil {
				continue
			}
			rt := fd.Recv.List[0].Type
			if st, ok := rt.(*ast.StarExpr); ok {
				rt = st.X
			}
			id, ok := rt.(*ast.Ident)
			if !ok || id.Name != it.Name {
				continue
			}
			if len(fd.Body.List) != 1 {
				return fmt.Errorf("%s: %s.%s is not a single return statement", sp.Family, it.Name, it.Func)
			}
			rs, ok := fd.Body.List[0].(*ast.ReturnStmt)
			if !ok || len(rs.Results) != 1 {
				return fmt.Errorf("%s: %s.%s is not a single return statement", sp.Family, it.Name, it.Func)
			}
			tv := pi.info.Types[rs.Results[0]]
			if tv.Value == nil {
				return fmt.Errorf("%s: %s.%s does not return a constant", sp.Family, it.Name, it.Func)
			}
			v := constant.ToInt(tv.Value)
			if v.Kind() != constant.Int || strings.HasPrefix(v.ExactString(), "-") {
				return fmt.Errorf("%s: %s.%s does not return a non-negative integer constant", sp.Family, it.Name, it.Func)
			}
			fmt.Fprintf(b, "def %s : Nat := %s\n", it.Lean, v.ExactString())
			return nil
		}
	}
	return fmt.Errorf("%s: method %s.%s not found in %s", sp.Family, it.Name, it.Func, it.Dir)
}

// Cheap loading for directories written with a leading "./" in a spec (e.g. "./pkg/rpc"): the package is parsed
// and type-checked with every import faked, which is enough for constants built from literals and avoids one
// `go list -export` per import of importer.Default() (minutes for pkg/rpc on a loaded machine). The cache key is
// the spelled directory, so specs that spell the directory without "./" keep the full loader.
type allFakeImporter struct{}

func (allFakeImporter) Import(path string) (*types.Package, error) {
	name := path[strings.LastIndex(path, "/")+1:]
	p := types.NewPackage(path, name)
	p.MarkComplete()
	return p, nil
}

func init() {
	repo, spec := "/repo", ""
	for i, a := range os.Args {
		for _, pfx := range []string{"-repo", "--repo"} {
			if a == pfx && i+1 < len(os.Args) {
				repo = os.Args[i+1]
			} else if strings.HasPrefix(a, pfx+"=") {
				repo = a[len(pfx)+1:]
			}
		}
		for _, pfx := range []string{"-spec", "--spec"} {
			if a == pfx && i+1 < len(os.Args) {
				spec = os.Args[i+1]
			} else if strings.HasPrefix(a, pfx+"=") {
				spec = a[len(pfx)+1:]
			}
		}
	}
	if spec == "" {
		return
	}
	ents, err := os.ReadDir(spec)
	if err != nil {
		return
	}
	for _, e := range ents {
		if !strings.HasSuffix(e.Name(), ".json") {
			continue
		}
		raw, _ := os.ReadFile(filepath.Join(spec, e.Name()))
		var sp Spec
		if json.Unmarshal(raw, &sp) != nil {
			continue
		}
		for _, it := range sp.Items {
			if !strings.HasPrefix(it.Dir, "./") {
				continue
			}
			if _, ok := cache[it.Dir]; ok {
				continue
			}
			if pi := cheapLoad(repo, it.Dir); pi != nil {
				cache[it.Dir] = pi
			}
		}
	}
}

func cheapLoad(repo, dir string) *pkgInfo {
	fset := token.NewFileSet()
	ents, err := os.ReadDir(filepath.Join(repo, dir))
	if err != nil {
		return nil
	}
	pi := &pkgInfo{fset: fset}
	for _, e := range ents {
		n := e.Name()
		if !strings.HasSuffix(n, ".go") || strings.HasSuffix(n, "_test.go") {
			continue
		}
		f, err := parser.ParseFile(fset, filepath.Join(repo, dir, n), nil, parser.ParseComments)
		if err != nil {
			return nil
		}
		pi.files = append(pi.files, f)
		pi.names = append(pi.names, n)
	}
	pi.info = &types.Info{Types: map[ast.Expr]types.TypeAndValue{}, Defs: map[*ast.Ident]types.Object{}, Uses: map[*ast.Ident]types.Object{}}
	conf := types.Config{Importer: allFakeImporter{}, Error: func(error) {}, FakeImportC: true}
	pi.pkg, _ = conf.Check(dir, fset, pi.files, pi.info)
	return pi
}
