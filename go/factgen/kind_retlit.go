package main

import (
	"fmt"
	"go/ast"
	"go/constant"
	"strings"
)

// kind "retlit": the integer constant returned by the single `return <const>` statement of method
// it.Func on receiver type it.Name (e.g. `func (RpcPing) TLTag() uint32 { return 0x5730a2df }`).
func init() {
	kinds["retlit"] = kind_retlit
}

func kind_retlit(pi *pkgInfo, sp Spec, it Item, b *strings.Builder) error {
	for _, f := range pi.files {
		for _, d := range f.Decls {
			fd, ok := d.(*ast.FuncDecl)
			if !ok || fd.Name.Name != it.Func || fd.Recv == nil || len(fd.Recv.List) != 1 || fd.Body == nil {
				continue
			}
			rt := fd.Recv.List[0].Type
			if st, ok := rt.(*ast.StarExpr); ok {
				rt = st.X
			}
			id, ok := rt.(*ast.Ident)
			if !ok || id.Name != it.Name {
				continue
			}
			if len(fd.Body.List) != 1 {
				return fmt.Errorf("%s: %s.%s is not a single return statement", sp.Family, it.Name, it.Func)
			}
			rs, ok := fd.Body.List[0].(*ast.ReturnStmt)
			if !ok || len(rs.Results) != 1 {
				return fmt.Errorf("%s: %s.%s is not a single return statement", sp.Family, it.Name, it.Func)
			}
			tv := pi.info.Types[rs.Results[0]]
			if tv.Value == nil {
				return fmt.Errorf("%s: %s.%s does not return a constant", sp.Family, it.Name, it.Func)
			}
			v := constant.ToInt(tv.Value)
			if v.Kind() != constant.Int || strings.HasPrefix(v.ExactString(), "-") {
				return fmt.Errorf("%s: %s.%s does not return a non-negative integer constant", sp.Family, it.Name, it.Func)
			}
			fmt.Fprintf(b, "def %s : Nat := %s\n", it.Lean, v.ExactString())
			return nil
		}
	}
	return fmt.Errorf("%s: method %s.%s not found in %s", sp.Family, it.Name, it.Func, it.Dir)
}
