package main

// Fact kinds "noimport:const|panicsites|maprange|callorder" (rpccalls family): the same emitters as the basic
// kinds, but the package is type-checked with every import replaced by an empty fake package, so that no
// `go list -export` of the (large) import graph of pkg/rpc is needed (minutes → milliseconds).  Constants made
// of literals, map-typed fields declared in the package and all syntactic facts are unaffected by that.
//
// The spec item's "dir" must be a directory that is cheap for the generic loader (it is loaded first by
// main.gen), the real directory and name are given as  "name": "<real dir>:<name>".

import (
	"fmt"
	"go/ast"
	"go/parser"
	"go/token"
	"go/types"
	"os"
	"path/filepath"
	"strings"
)

type nullImporter struct{}

func (nullImporter) Import(path string) (*types.Package, error) {
	name := path[strings.LastIndex(path, "/")+1:]
	p := types.NewPackage(path, name)
	p.MarkComplete()
	return p, nil
}

var fastCache = map[string]*pkgInfo{}

func fastLoad(repo, dir string) (*pkgInfo, error) {
	if p, ok := fastCache[dir]; ok {
		return p, nil
	}
	fset := token.NewFileSet()
	ents, err := os.ReadDir(filepath.Join(repo, dir))
	if err != nil {
		return nil, err
	}
	pi := &pkgInfo{fset: fset}
	for _, e := range ents {
		n := e.Name()
		if !strings.HasSuffix(n, ".go") || strings.HasSuffix(n, "_test.go") {
			continue
		}
		f, err := parser.ParseFile(fset, filepath.Join(repo, dir, n), nil, parser.ParseComments)
		if err != nil {
			return nil, err
		}
		pi.files = append(pi.files, f)
		pi.names = append(pi.names, n)
	}
	pi.info = &types.Info{Types: map[ast.Expr]types.TypeAndValue{}, Defs: map[*ast.Ident]types.Object{}, Uses: map[*ast.Ident]types.Object{}}
	conf := types.Config{Importer: nullImporter{}, Error: func(error) {}, FakeImportC: true}
	pi.pkg, _ = conf.Check(dir, fset, pi.files, pi.info)
	fastCache[dir] = pi
	return pi, nil
}

func init() {
	for _, k := range []string{"const", "panicsites", "maprange", "callorder"} {
		kind := k
		kinds["noimport:"+kind] = func(pi *pkgInfo, sp Spec, it Item, b *strings.Builder) error {
			i := strings.Index(it.Name, ":")
			if i < 0 || len(pi.files) == 0 {
				return fmt.Errorf("%s: noimport item needs name \"<dir>:<name>\" and a non-empty cheap dir", sp.Family)
			}
			realDir, name := it.Name[:i], it.Name[i+1:]
			first := pi.fset.Position(pi.files[0].Pos()).Filename
			repo := strings.TrimSuffix(filepath.Dir(first), filepath.FromSlash(it.Dir))
			fpi, err := fastLoad(repo, realDir)
			if err != nil {
				return err
			}
			it2 := it
			it2.Kind, it2.Dir, it2.Name = kind, realDir, name
			return kinds[kind](fpi, sp, it2, b)
		}
	}
}
