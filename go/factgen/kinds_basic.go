package main

import (
	"fmt"
	"go/ast"
	"go/constant"
	"go/types"
	"sort"
	"strings"
)

func init() {
	kinds["const"] = kind_const
	kinds["strconst"] = kind_const
	kinds["boolarray"] = kind_boolarray
	kinds["callorder"] = kind_callorder
	kinds["maprange"] = kind_maprange
	kinds["panicsites"] = kind_maprange
}

func kind_const(pi *pkgInfo, sp Spec, it Item, bb *strings.Builder) error {
	b := bb
	obj := pi.pkg.Scope().Lookup(it.Name)
	c, ok := obj.(*types.Const)
	if !ok {
		return fmt.Errorf("%s: constant %s not found in %s", sp.Family, it.Name, it.Dir)
	}
	if it.Kind == "const" {
		v := constant.ToInt(c.Val())
		if v.Kind() != constant.Int {
			return fmt.Errorf("%s: %s is not an integer constant", sp.Family, it.Name)
		}
		s := v.ExactString()
		if strings.HasPrefix(s, "-") {
			fmt.Fprintf(b, "def %s : Int := %s\n", it.Lean, s)
		} else {
			fmt.Fprintf(b, "def %s : Nat := %s\n", it.Lean, s)
		}
	} else {
		fmt.Fprintf(b, "def %s : String := %s\n", it.Lean, leanStr(constant.StringVal(c.Val())))
	}
	return nil
}

func kind_boolarray(pi *pkgInfo, sp Spec, it Item, bb *strings.Builder) error {
	b := bb
	vals := make([]bool, it.Size)
	found := false
	for _, f := range pi.files {
		ast.Inspect(f, func(n ast.Node) bool {
			vs, ok := n.(*ast.ValueSpec)
			if !ok || len(vs.Names) != 1 || vs.Names[0].Name != it.Name || len(vs.Values) != 1 {
				return true
			}
			cl, ok := vs.Values[0].(*ast.CompositeLit)
			if !ok {
				return true
			}
			found = true
			idx := 0
			for _, e := range cl.Elts {
				val := e
				if kv, ok := e.(*ast.KeyValueExpr); ok {
					tv := pi.info.Types[kv.Key]
					if tv.Value != nil {
						if i, ok := constant.Int64Val(constant.ToInt(tv.Value)); ok {
							idx = int(i)
						}
					}
					val = kv.Value
				}
				if id, ok := val.(*ast.Ident); ok && idx < len(vals) {
					vals[idx] = id.Name == "true"
				}
				idx++
			}
			return false
		})
	}
	if !found {
		return fmt.Errorf("%s: array %s not found", sp.Family, it.Name)
	}
	fmt.Fprintf(b, "def %s : List Bool := [", it.Lean)
	for i, v := range vals {
		if i > 0 {
			b.WriteString(", ")
		}
		fmt.Fprintf(b, "%v", v)
	}
	b.WriteString("]\n")
	return nil
}

func kind_callorder(pi *pkgInfo, sp Spec, it Item, bb *strings.Builder) error {
	b := bb
	// ordered list of callee names (selector or ident) appearing in the body of func it.Func
	var calls []string
	for _, f := range pi.files {
		for _, d := range f.Decls {
			fd, ok := d.(*ast.FuncDecl)
			if !ok || fd.Name.Name != it.Func || fd.Body == nil {
				continue
			}
			ast.Inspect(fd.Body, func(n ast.Node) bool {
				ce, ok := n.(*ast.CallExpr)
				if !ok {
					return true
				}
				switch fn := ce.Fun.(type) {
				case *ast.Ident:
					calls = append(calls, fn.Name)
				case *ast.SelectorExpr:
					calls = append(calls, fn.Sel.Name)
				}
				return true
			})
		}
	}
	fmt.Fprintf(b, "def %s : List String := [", it.Lean)
	for i, c := range calls {
		if i > 0 {
			b.WriteString(", ")
		}
		b.WriteString(leanStr(c))
	}
	b.WriteString("]\n")
	return nil
}

func kind_maprange(pi *pkgInfo, sp Spec, it Item, bb *strings.Builder) error {
	b := bb
	// census: "file:func" of every `for range` over a map-typed expr / every panic-like call
	var sites []string
	for fi, f := range pi.files {
		if len(it.Files) > 0 {
			ok := false
			for _, n := range it.Files {
				if n == pi.names[fi] {
					ok = true
				}
			}
			if !ok {
				continue
			}
		}
		for _, d := range f.Decls {
			fd, ok := d.(*ast.FuncDecl)
			if !ok || fd.Body == nil {
				continue
			}
			fname := fd.Name.Name
			if fd.Recv != nil && len(fd.Recv.List) == 1 {
				t := fd.Recv.List[0].Type
				if st, ok := t.(*ast.StarExpr); ok {
					t = st.X
				}
				if ix, ok := t.(*ast.IndexExpr); ok {
					t = ix.X
				}
				if id, ok := t.(*ast.Ident); ok {
					fname = id.Name + "." + fname
				}
			}
			cnt := 0
			ast.Inspect(fd.Body, func(n ast.Node) bool {
				if it.Kind == "maprange" {
					rs, ok := n.(*ast.RangeStmt)
					if !ok {
						return true
					}
					tv, ok := pi.info.Types[rs.X]
					if ok && tv.Type != nil {
						if _, isMap := tv.Type.Underlying().(*types.Map); isMap {
							cnt++
						}
					}
				} else {
					ce, ok := n.(*ast.CallExpr)
					if !ok {
						return true
					}
					switch fn := ce.Fun.(type) {
					case *ast.Ident:
						if fn.Name == "panic" {
							cnt++
						}
					case *ast.SelectorExpr:
						if strings.HasPrefix(fn.Sel.Name, "Panic") || strings.HasPrefix(fn.Sel.Name, "Fatal") {
							cnt++
						}
					}
				}
				return true
			})
			if cnt > 0 {
				sites = append(sites, fmt.Sprintf("%s:%s:%d", pi.names[fi], fname, cnt))
			}
		}
	}
	sort.Strings(sites)
	fmt.Fprintf(b, "def %s : List String := [", it.Lean)
	for i, c := range sites {
		if i > 0 {
			b.WriteString(",\n  ")
		}
		b.WriteString(leanStr(c))
	}
	b.WriteString("]\n")

	return nil
}
