module verif.local/factgen

go 1.23
