package main

import (
	"fmt"
	"go/ast"
	"go/constant"
	"go/types"
	"strings"
)

// assignlit: the integer constant assigned to the expression `name` (printed form, e.g. "n.height")
// inside function `func` of the package. Exactly one such assignment must exist in that function.
// Emits `def <lean> : Nat := v` (or Int when negative).
func init() {
	kinds["assignlit"] = kind_assignlit
}

func kind_assignlit(pi *pkgInfo, sp Spec, it Item, b *strings.Builder) error {
	var vals []string
	for _, f := range pi.files {
		for _, d := range f.Decls {
			fd, ok := d.(*ast.FuncDecl)
			if !ok || fd.Name.Name != it.Func || fd.Body == nil {
				continue
			}
			ast.Inspect(fd.Body, func(n ast.Node) bool {
				as, ok := n.(*ast.AssignStmt)
				if !ok || len(as.Lhs) != len(as.Rhs) {
					return true
				}
				for i, l := range as.Lhs {
					if types.ExprString(l) != it.Name {
						continue
					}
					tv, ok := pi.info.Types[as.Rhs[i]]
					if !ok || tv.Value == nil {
						vals = append(vals, "?")
						continue
					}
					v := constant.ToInt(tv.Value)
					if v.Kind() != constant.Int {
						vals = append(vals, "?")
						continue
					}
					vals = append(vals, v.ExactString())
				}
				return true
			})
		}
	}
	if len(vals) != 1 || vals[0] == "?" {
		return fmt.Errorf("%s: expected exactly one constant assignment to %s in func %s of %s, found %v", sp.Family, it.Name, it.Func, it.Dir, vals)
	}
	if strings.HasPrefix(vals[0], "-") {
		fmt.Fprintf(b, "def %s : Int := %s\n", it.Lean, vals[0])
	} else {
		fmt.Fprintf(b, "def %s : Nat := %s\n", it.Lean, vals[0])
	}
	return nil
}
