package main

import (
	"fmt"
	"go/ast"
	"go/constant"
	"strings"
)

// kind "tltag": the constant returned by the generated method `func (<Name>) TLTag() uint32 { return 0x… }`
// of receiver type it.Name (generated TL packages keep constructor tags as literals, not as constants).
func init() {
	kinds["tltag"] = kind_tltag
}

func kind_tltag(pi *pkgInfo, sp Spec, it Item, b *strings.Builder) error {
	for _, f := range pi.files {
		for _, d := range f.Decls {
			fd, ok := d.(*ast.FuncDecl)
			if !ok || fd.Name.Name != "TLTag" || fd.Recv == nil || len(fd.Recv.List) != 1 || fd.Body == nil {
				continue
			}
			t := fd.Recv.List[0].Type
			if st, ok := t.(*ast.StarExpr); ok {
				t = st.X
			}
			id, ok := t.(*ast.Ident)
			if !ok || id.Name != it.Name || len(fd.Body.List) != 1 {
				continue
			}
			rs, ok := fd.Body.List[0].(*ast.ReturnStmt)
			if !ok || len(rs.Results) != 1 {
				continue
			}
			tv, ok := pi.info.Types[rs.Results[0]]
			if !ok || tv.Value == nil {
				return fmt.Errorf("%s: %s.TLTag does not return a constant", sp.Family, it.Name)
			}
			v := constant.ToInt(tv.Value)
			if v.Kind() != constant.Int {
				return fmt.Errorf("%s: %s.TLTag is not an integer", sp.Family, it.Name)
			}
			fmt.Fprintf(b, "def %s : Nat := %s\n", it.Lean, v.ExactString())
			return nil
		}
	}
	return fmt.Errorf("%s: method %s.TLTag not found in %s", sp.Family, it.Name, it.Dir)
}
