package main

// Fact kinds added by the Rpcextra family.
//
//   tltag:      {"kind":"tltag","dir":…,"name":"RpcDestActor","lean":"tagRpcDestActor"}
//               the integer literal returned by `func (RpcDestActor) TLTag() uint32 { return 0x… }`
//   tl1layout:  {"kind":"tl1layout","dir":…,"name":"RpcInvokeReqExtra","func":"WriteTL1","lean":"reqExtraWriteLayout"}
//               the ordered list of field steps of a generated `WriteTL1`/`ReadTL1` method:
//               (mask bit or 1000 when unconditional, callee name, field name); a step is
//               `w = callee(w, item.Field)`, `w = item.Field.callee(w)`,
//               `w, err = callee(w, &item.Field)` or `w, err = item.Field.callee(w)`,
//               possibly inside `if item.<Mask>&(1<<bit) != 0 { … }`.

import (
	"fmt"
	"go/ast"
	"go/constant"
	"go/token"
	"strings"
)

func init() {
	kinds["tltag"] = kind_tltag
	kinds["tl1layout"] = kind_tl1layout
}

func recvTypeName(fd *ast.FuncDecl) string {
	if fd.Recv == nil || len(fd.Recv.List) != 1 {
		return ""
	}
	t := fd.Recv.List[0].Type
	if st, ok := t.(*ast.StarExpr); ok {
		t = st.X
	}
	if id, ok := t.(*ast.Ident); ok {
		return id.Name
	}
	return ""
}

func findMethod(pi *pkgInfo, typ, name string) *ast.FuncDecl {
	for _, f := range pi.files {
		for _, d := range f.Decls {
			fd, ok := d.(*ast.FuncDecl)
			if ok && fd.Name.Name == name && recvTypeName(fd) == typ && fd.Body != nil {
				return fd
			}
		}
	}
	return nil
}

func kind_tltag(pi *pkgInfo, sp Spec, it Item, b *strings.Builder) error {
	fd := findMethod(pi, it.Name, "TLTag")
	if fd == nil || len(fd.Body.List) != 1 {
		return fmt.Errorf("%s: method %s.TLTag with a single return not found in %s", sp.Family, it.Name, it.Dir)
	}
	rs, ok := fd.Body.List[0].(*ast.ReturnStmt)
	if !ok || len(rs.Results) != 1 {
		return fmt.Errorf("%s: %s.TLTag is not a single return", sp.Family, it.Name)
	}
	tv := pi.info.Types[rs.Results[0]]
	if tv.Value == nil {
		return fmt.Errorf("%s: %s.TLTag does not return a constant", sp.Family, it.Name)
	}
	v := constant.ToInt(tv.Value)
	fmt.Fprintf(b, "def %s : Nat := %s\n", it.Lean, v.ExactString())
	return nil
}

// maskBit recognises `item.X&(1<<N) != 0`
func maskBit(pi *pkgInfo, e ast.Expr) (int, bool) {
	be, ok := e.(*ast.BinaryExpr)
	if !ok || be.Op != token.NEQ {
		return 0, false
	}
	and, ok := be.X.(*ast.BinaryExpr)
	if !ok || and.Op != token.AND {
		return 0, false
	}
	rhs := and.Y
	if p, ok := rhs.(*ast.ParenExpr); ok {
		rhs = p.X
	}
	sh, ok := rhs.(*ast.BinaryExpr)
	if !ok || sh.Op != token.SHL {
		return 0, false
	}
	tv := pi.info.Types[sh.Y]
	if tv.Value == nil {
		if lit, ok := sh.Y.(*ast.BasicLit); ok {
			var n int
			fmt.Sscanf(lit.Value, "%d", &n)
			return n, true
		}
		return 0, false
	}
	n, _ := constant.Int64Val(constant.ToInt(tv.Value))
	return int(n), true
}

type layoutStep struct {
	bit    int
	callee string
	field  string
}

func fieldOf(e ast.Expr) string {
	if u, ok := e.(*ast.UnaryExpr); ok && u.Op == token.AND {
		e = u.X
	}
	if s, ok := e.(*ast.SelectorExpr); ok {
		if id, ok := s.X.(*ast.Ident); ok && id.Name == "item" {
			return s.Sel.Name
		}
	}
	return ""
}

func callStep(ce *ast.CallExpr) (callee, field string, ok bool) {
	switch fn := ce.Fun.(type) {
	case *ast.Ident: // Builtin…(w, item.F)
		callee = fn.Name
	case *ast.SelectorExpr:
		if f := fieldOf(fn.X); f != "" { // item.F.Method(w)
			return fn.Sel.Name, f, true
		}
		callee = fn.Sel.Name // basictl.X(w, item.F)
	default:
		return "", "", false
	}
	for _, a := range ce.Args {
		if f := fieldOf(a); f != "" {
			return callee, f, true
		}
	}
	return "", "", false
}

func collectSteps(pi *pkgInfo, stmts []ast.Stmt, bit int, out *[]layoutStep) {
	for _, s := range stmts {
		switch st := s.(type) {
		case *ast.AssignStmt:
			if len(st.Rhs) == 1 {
				if ce, ok := st.Rhs[0].(*ast.CallExpr); ok {
					if c, f, ok := callStep(ce); ok {
						*out = append(*out, layoutStep{bit, c, f})
					}
				}
			}
		case *ast.ReturnStmt:
			for _, r := range st.Results {
				if ce, ok := r.(*ast.CallExpr); ok {
					if c, f, ok := callStep(ce); ok {
						*out = append(*out, layoutStep{bit, c, f})
					}
				}
			}
		case *ast.IfStmt:
			inner := bit
			if n, ok := maskBit(pi, st.Cond); ok {
				inner = n
			}
			if st.Init != nil {
				collectSteps(pi, []ast.Stmt{st.Init}, inner, out)
			}
			collectSteps(pi, st.Body.List, inner, out)
			// the else branch only resets the field: not a wire step
		}
	}
}

func kind_tl1layout(pi *pkgInfo, sp Spec, it Item, b *strings.Builder) error {
	fd := findMethod(pi, it.Name, it.Func)
	if fd == nil {
		return fmt.Errorf("%s: method %s.%s not found in %s", sp.Family, it.Name, it.Func, it.Dir)
	}
	var steps []layoutStep
	collectSteps(pi, fd.Body.List, 1000, &steps)
	fmt.Fprintf(b, "def %s : List (Nat × String × String) := [", it.Lean)
	for i, s := range steps {
		if i > 0 {
			b.WriteString(", ")
		}
		fmt.Fprintf(b, "(%d, %s, %s)", s.bit, leanStr(s.callee), leanStr(s.field))
	}
	b.WriteString("]\n")
	return nil
}
