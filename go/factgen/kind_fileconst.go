package main

// kind "fileconst": an integer constant taken from the listed source files only (paths relative to the
// repository), type-checked on their own with every import faked.  Use it when the package has many
// imports: the generic loader resolves each import through `go list -export` (≈2 s apiece), which makes
// `const` on e.g. pkg/rpc/udp cost a minute per run.  Set "dir" to a directory without Go files ("."),
// so that the generic per-directory load is free.
//
//	{"kind": "fileconst", "dir": ".", "files": ["pkg/rpc/udp/acks.go"], "name": "MaxAckSet", "lean": "maxAckSet"}
//
// The constant's initialiser may only refer to constants declared in the listed files (otherwise its
// value is unknown without the imports and an error is reported).

import (
	"flag"
	"fmt"
	"go/ast"
	"go/constant"
	"go/parser"
	"go/token"
	"go/types"
	"path/filepath"
	"strings"
)

type emptyImporter struct{}

func (emptyImporter) Import(path string) (*types.Package, error) {
	p := types.NewPackage(path, path[strings.LastIndex(path, "/")+1:])
	p.MarkComplete()
	return p, nil
}

func init() {
	kinds["fileconst"] = kind_fileconst
}

func kind_fileconst(pi *pkgInfo, sp Spec, it Item, b *strings.Builder) error {
	repo := "/repo"
	if f := flag.Lookup("repo"); f != nil {
		repo = f.Value.String()
	}
	if len(it.Files) == 0 {
		return fmt.Errorf("%s: fileconst %s needs \"files\"", sp.Family, it.Name)
	}
	fset := token.NewFileSet()
	var files []*ast.File
	for _, fn := range it.Files {
		f, err := parser.ParseFile(fset, filepath.Join(repo, fn), nil, 0)
		if err != nil {
			return fmt.Errorf("%s: %v", sp.Family, err)
		}
		files = append(files, f)
	}
	conf := types.Config{Importer: emptyImporter{}, Error: func(error) {}, FakeImportC: true}
	pkg, _ := conf.Check("fileconst", fset, files, nil)
	if pkg == nil {
		return fmt.Errorf("%s: cannot type-check %v", sp.Family, it.Files)
	}
	c, ok := pkg.Scope().Lookup(it.Name).(*types.Const)
	if !ok {
		return fmt.Errorf("%s: constant %s not found in %v", sp.Family, it.Name, it.Files)
	}
	if c.Val().Kind() == constant.Unknown {
		return fmt.Errorf("%s: value of %s is not determined by %v alone", sp.Family, it.Name, it.Files)
	}
	v := constant.ToInt(c.Val())
	if v.Kind() != constant.Int {
		return fmt.Errorf("%s: %s is not an integer constant", sp.Family, it.Name)
	}
	s := v.ExactString()
	if strings.HasPrefix(s, "-") {
		fmt.Fprintf(b, "def %s : Int := %s\n", it.Lean, s)
	} else {
		fmt.Fprintf(b, "def %s : Nat := %s\n", it.Lean, s)
	}
	return nil
}
