package main

// kind "maprange2": census of `for … range <map-typed expression>` sites over several package directories,
// type-checked from source with in-repository imports resolved recursively (so maps whose type comes from another
// package of the repository are seen); packages outside the repository are stubbed.
// Spec: {"kind":"maprange2","dir":<any small package>,"lean":<name>,"files":[<package dirs, relative to the repo>]}
// Output entries: "<dir>/<file>:<Receiver.Func>:<count>", sorted.

import (
	"fmt"
	"go/ast"
	"go/parser"
	"go/token"
	"go/types"
	"os"
	"path/filepath"
	"sort"
	"strings"
)

func init() {
	kinds["maprange2"] = kind_maprange2
}

type srcImporter struct {
	repo   string
	module string
	fset   *token.FileSet
	pkgs   map[string]*types.Package
	infos  map[string]*types.Info
	files  map[string][]*ast.File
	names  map[string][]string
	busy   map[string]bool
}

func (si *srcImporter) Import(path string) (*types.Package, error) {
	if p, ok := si.pkgs[path]; ok {
		return p, nil
	}
	if strings.HasPrefix(path, si.module+"/") && !si.busy[path] {
		if p := si.check(strings.TrimPrefix(path, si.module+"/")); p != nil {
			return p, nil
		}
	}
	name := path[strings.LastIndex(path, "/")+1:]
	p := types.NewPackage(path, name)
	p.MarkComplete()
	si.pkgs[path] = p
	return p, nil
}

func (si *srcImporter) check(dir string) *types.Package {
	path := si.module + "/" + dir
	if p, ok := si.pkgs[path]; ok {
		return p
	}
	si.busy[path] = true
	defer delete(si.busy, path)
	ents, err := os.ReadDir(filepath.Join(si.repo, dir))
	if err != nil {
		return nil
	}
	var files []*ast.File
	var names []string
	for _, e := range ents {
		n := e.Name()
		if !strings.HasSuffix(n, ".go") || strings.HasSuffix(n, "_test.go") {
			continue
		}
		f, err := parser.ParseFile(si.fset, filepath.Join(si.repo, dir, n), nil, 0)
		if err != nil {
			continue
		}
		files = append(files, f)
		names = append(names, n)
	}
	if len(files) == 0 {
		return nil
	}
	info := &types.Info{Types: map[ast.Expr]types.TypeAndValue{}}
	conf := types.Config{Importer: si, Error: func(error) {}, FakeImportC: true}
	pkg, _ := conf.Check(path, si.fset, files, info)
	si.pkgs[path] = pkg
	si.infos[dir] = info
	si.files[dir] = files
	si.names[dir] = names
	return pkg
}

func kind_maprange2(pi *pkgInfo, sp Spec, it Item, b *strings.Builder) error {
	if len(pi.files) == 0 {
		return fmt.Errorf("%s: maprange2 needs a loadable dir", sp.Family)
	}
	full := pi.fset.File(pi.files[0].Pos()).Name()
	repo := strings.TrimSuffix(filepath.Dir(full), string(filepath.Separator)+filepath.FromSlash(it.Dir))
	module := ""
	if raw, err := os.ReadFile(filepath.Join(repo, "go.mod")); err == nil {
		for _, l := range strings.Split(string(raw), "\n") {
			if strings.HasPrefix(l, "module ") {
				module = strings.TrimSpace(strings.TrimPrefix(l, "module "))
			}
		}
	}
	if module == "" {
		return fmt.Errorf("%s: cannot find module path in %s/go.mod", sp.Family, repo)
	}
	si := &srcImporter{repo: repo, module: module, fset: token.NewFileSet(), pkgs: map[string]*types.Package{},
		infos: map[string]*types.Info{}, files: map[string][]*ast.File{}, names: map[string][]string{}, busy: map[string]bool{}}
	var sites []string
	for _, dir := range it.Files {
		if si.check(dir) == nil {
			return fmt.Errorf("%s: cannot load package %s", sp.Family, dir)
		}
		info := si.infos[dir]
		for fi, f := range si.files[dir] {
			for _, d := range f.Decls {
				fd, ok := d.(*ast.FuncDecl)
				if !ok || fd.Body == nil {
					continue
				}
				fname := fd.Name.Name
				if fd.Recv != nil && len(fd.Recv.List) == 1 {
					t := fd.Recv.List[0].Type
					if st, ok := t.(*ast.StarExpr); ok {
						t = st.X
					}
					if ix, ok := t.(*ast.IndexExpr); ok {
						t = ix.X
					}
					if id, ok := t.(*ast.Ident); ok {
						fname = id.Name + "." + fname
					}
				}
				cnt := 0
				ast.Inspect(fd.Body, func(n ast.Node) bool {
					rs, ok := n.(*ast.RangeStmt)
					if !ok {
						return true
					}
					if tv, ok := info.Types[rs.X]; ok && tv.Type != nil {
						if _, isMap := tv.Type.Underlying().(*types.Map); isMap {
							cnt++
						}
					}
					return true
				})
				if cnt > 0 {
					sites = append(sites, fmt.Sprintf("%s/%s:%s:%d", dir, si.names[dir][fi], fname, cnt))
				}
			}
		}
	}
	sort.Strings(sites)
	fmt.Fprintf(b, "def %s : List String := [", it.Lean)
	for i, c := range sites {
		if i > 0 {
			b.WriteString(",\n  ")
		}
		b.WriteString(leanStr(c))
	}
	b.WriteString("]\n")
	return nil
}
