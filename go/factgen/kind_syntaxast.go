package main

// Syntax-only fact kinds (no type checking, so no `go list -export` per import of a large package):
//   astconst / aststrconst : value of a package-level constant declared with a literal initialiser
//                            (INT, CHAR, STRING, optionally negated) in one of `files` (paths relative to the repo root)
//   astpanicsites          : census "file:func:count" of panic(...) / x.Panic*(...) / x.Fatal*(...) calls in `files`
// `dir` of such an item should name a small package (it is still loaded by the generic driver).

import (
	"flag"
	"fmt"
	"go/ast"
	"go/parser"
	"go/token"
	"path/filepath"
	"sort"
	"strconv"
	"strings"
)

func init() {
	kinds["astconst"] = kindAstConst
	kinds["aststrconst"] = kindAstConst
	kinds["astpanicsites"] = kindAstPanicSites
}

var astFileCache = map[string]*ast.File{}

func astRepo() string {
	if f := flag.Lookup("repo"); f != nil {
		return f.Value.String()
	}
	return "/repo"
}

func astFile(rel string) (*ast.File, error) {
	if f, ok := astFileCache[rel]; ok {
		return f, nil
	}
	f, err := parser.ParseFile(token.NewFileSet(), filepath.Join(astRepo(), rel), nil, 0)
	if err != nil {
		return nil, err
	}
	astFileCache[rel] = f
	return f, nil
}

func kindAstConst(_ *pkgInfo, sp Spec, it Item, b *strings.Builder) error {
	for _, rel := range it.Files {
		f, err := astFile(rel)
		if err != nil {
			return err
		}
		for _, d := range f.Decls {
			gd, ok := d.(*ast.GenDecl)
			if !ok || gd.Tok != token.CONST {
				continue
			}
			for _, s := range gd.Specs {
				vs := s.(*ast.ValueSpec)
				for i, n := range vs.Names {
					if n.Name != it.Name || i >= len(vs.Values) {
						continue
					}
					e := vs.Values[i]
					neg := false
					if u, ok := e.(*ast.UnaryExpr); ok && u.Op == token.SUB {
						neg = true
						e = u.X
					}
					lit, ok := e.(*ast.BasicLit)
					if !ok {
						return fmt.Errorf("%s: constant %s is not declared with a literal", sp.Family, it.Name)
					}
					switch {
					case it.Kind == "aststrconst" && lit.Kind == token.STRING && !neg:
						v, err := strconv.Unquote(lit.Value)
						if err != nil {
							return err
						}
						fmt.Fprintf(b, "def %s : String := %s\n", it.Lean, leanStr(v))
						return nil
					case it.Kind == "astconst" && lit.Kind == token.INT:
						v, err := strconv.ParseInt(lit.Value, 0, 64)
						if err != nil {
							return err
						}
						if neg {
							fmt.Fprintf(b, "def %s : Int := -%d\n", it.Lean, v)
						} else {
							fmt.Fprintf(b, "def %s : Nat := %d\n", it.Lean, v)
						}
						return nil
					case it.Kind == "astconst" && lit.Kind == token.CHAR && !neg:
						v, _, _, err := strconv.UnquoteChar(lit.Value[1:len(lit.Value)-1], '\'')
						if err != nil {
							return err
						}
						fmt.Fprintf(b, "def %s : Nat := %d\n", it.Lean, v)
						return nil
					}
					return fmt.Errorf("%s: constant %s has an unsupported literal %s", sp.Family, it.Name, lit.Value)
				}
			}
		}
	}
	return fmt.Errorf("%s: constant %s not found in %v", sp.Family, it.Name, it.Files)
}

func kindAstPanicSites(_ *pkgInfo, sp Spec, it Item, b *strings.Builder) error {
	var sites []string
	for _, rel := range it.Files {
		f, err := astFile(rel)
		if err != nil {
			return err
		}
		for _, d := range f.Decls {
			fd, ok := d.(*ast.FuncDecl)
			if !ok || fd.Body == nil {
				continue
			}
			fname := fd.Name.Name
			if fd.Recv != nil && len(fd.Recv.List) == 1 {
				t := fd.Recv.List[0].Type
				if st, ok := t.(*ast.StarExpr); ok {
					t = st.X
				}
				if id, ok := t.(*ast.Ident); ok {
					fname = id.Name + "." + fname
				}
			}
			cnt := 0
			ast.Inspect(fd.Body, func(n ast.Node) bool {
				ce, ok := n.(*ast.CallExpr)
				if !ok {
					return true
				}
				switch fn := ce.Fun.(type) {
				case *ast.Ident:
					if fn.Name == "panic" {
						cnt++
					}
				case *ast.SelectorExpr:
					if strings.HasPrefix(fn.Sel.Name, "Panic") || strings.HasPrefix(fn.Sel.Name, "Fatal") {
						cnt++
					}
				}
				return true
			})
			if cnt > 0 {
				sites = append(sites, fmt.Sprintf("%s:%s:%d", filepath.Base(rel), fname, cnt))
			}
		}
	}
	sort.Strings(sites)
	fmt.Fprintf(b, "def %s : List String := [", it.Lean)
	for i, c := range sites {
		if i > 0 {
			b.WriteString(",\n  ")
		}
		b.WriteString(leanStr(c))
	}
	b.WriteString("]\n")
	return nil
}
