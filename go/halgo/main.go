//go:build verif

// Harness for the `algo` family: runs internal/vkgo/pkg/algo TreeMap and CircularSlice on the same case lines
// as the Lean model. One line = one whole operation history; output = comma separated observations.
package main

import (
	"bufio"
	"fmt"
	"os"
	"strconv"
	"strings"

	"github.com/VKCOM/tl/internal/vkgo/pkg/algo"
)

type cmpT struct{}

func (cmpT) Cmp(a int, b int) bool { return a < b }

type node = algo.TreeNode[algo.Entry[int, int]]

func dump(n *node, sb *strings.Builder) (realHeight int, maxBal int) {
	if n == nil {
		sb.WriteByte('_')
		return 0, 0
	}
	e, l, r, h := algo.VerifNode(n)
	fmt.Fprintf(sb, "(%d:%d:%d", e.K, e.V, h)
	hl, bl := dump(l, sb)
	hr, br := dump(r, sb)
	sb.WriteByte(')')
	b := hl - hr
	if b < 0 {
		b = -b
	}
	return 1 + max(hl, hr), max(b, max(bl, br))
}

// guard runs f; a recovered panic yields "panic".
func guard(f func() string) (res string) {
	defer func() {
		if r := recover(); r != nil {
			res = "panic"
		}
	}()
	return f()
}

func b01(b bool) string {
	if b {
		return "1"
	}
	return "0"
}

func runTree(ops []string) string {
	alloc := algo.NewSliceCacheAllocator[node]()
	t := algo.NewTreeMap[int, int, cmpT](&alloc)
	obs := make([]string, 0, len(ops))
	for _, op := range ops {
		f := strings.Split(op, ":")
		switch {
		case f[0] == "s" && len(f) == 3:
			k, e1 := strconv.Atoi(f[1])
			v, e2 := strconv.ParseUint(f[2], 10, 62)
			if e1 != nil || e2 != nil {
				return "bad-op"
			}
			obs = append(obs, guard(func() string { t.Set(k, int(v)); return "." }))
		case f[0] == "d" && len(f) == 2:
			k, e1 := strconv.Atoi(f[1])
			if e1 != nil {
				return "bad-op"
			}
			obs = append(obs, guard(func() string { t.Delete(k); return "." }))
		case f[0] == "g" && len(f) == 2:
			k, e1 := strconv.Atoi(f[1])
			if e1 != nil {
				return "bad-op"
			}
			obs = append(obs, guard(func() string {
				v, ok := t.Get(k)
				p := t.GetPtr(k)
				if (p != nil) != ok || (ok && *p != v) {
					return "GET-GETPTR-DIFFER"
				}
				if !ok {
					if v != 0 {
						return "GET-NONZERO-ABSENT"
					}
					return "-"
				}
				return strconv.Itoa(v)
			}))
		case f[0] == "u" && len(f) == 3:
			k, e1 := strconv.Atoi(f[1])
			v, e2 := strconv.ParseUint(f[2], 10, 62)
			if e1 != nil || e2 != nil {
				return "bad-op"
			}
			obs = append(obs, guard(func() string {
				p := t.GetPtr(k)
				if p == nil {
					return "0"
				}
				*p = int(v)
				return "1"
			}))
		case op == "e":
			obs = append(obs, guard(func() string { return b01(t.Empty()) }))
		case op == "f":
			obs = append(obs, guard(func() string { e := t.Front(); return fmt.Sprintf("%d:%d", e.K, e.V) }))
		case op == "b":
			obs = append(obs, guard(func() string { e := t.Back(); return fmt.Sprintf("%d:%d", e.K, e.V) }))
		case op == "m":
			obs = append(obs, guard(func() string { return b01(t.LenMoreThan1()) }))
		case op == "V":
			obs = append(obs, guard(func() string { algo.VerifValidate(&t); return "ok" }))
		case op == "D":
			obs = append(obs, guard(func() string {
				var sb strings.Builder
				rh, mb := dump(algo.VerifRoot(&t), &sb)
				return fmt.Sprintf("%s;rh=%d;mb=%d", sb.String(), rh, mb)
			}))
		default:
			return "bad-op"
		}
	}
	return "ok " + strings.Join(obs, ",")
}

func ints(l []int) string {
	if len(l) == 0 {
		return "-"
	}
	var sb strings.Builder
	for i, x := range l {
		if i > 0 {
			sb.WriteByte('.')
		}
		sb.WriteString(strconv.Itoa(x))
	}
	return sb.String()
}

func csDump(s *algo.CircularSlice[int]) string {
	e, r, w := algo.VerifCircular(s)
	return fmt.Sprintf("%s/%d/%d", ints(e), r, w)
}

func runCirc(ops []string) string {
	var s, o algo.CircularSlice[int]
	obs := make([]string, 0, len(ops))
	for _, op := range ops {
		f := strings.Split(op, ":")
		switch {
		case f[0] == "p" && len(f) == 2:
			x, e1 := strconv.ParseUint(f[1], 10, 62)
			if e1 != nil {
				return "bad-op"
			}
			obs = append(obs, guard(func() string { s.PushBack(int(x)); return "." }))
		case op == "q":
			obs = append(obs, guard(func() string { return strconv.Itoa(s.PopFront()) }))
		case op == "f":
			obs = append(obs, guard(func() string { return strconv.Itoa(s.Front()) }))
		case f[0] == "i" && len(f) == 2:
			p, e1 := strconv.Atoi(f[1])
			if e1 != nil {
				return "bad-op"
			}
			obs = append(obs, guard(func() string {
				v := s.Index(p)
				if *s.IndexRef(p) != v {
					return "INDEX-INDEXREF-DIFFER"
				}
				return strconv.Itoa(v)
			}))
		case f[0] == "x" && len(f) == 3:
			p, e1 := strconv.Atoi(f[1])
			v, e2 := strconv.ParseUint(f[2], 10, 62)
			if e1 != nil || e2 != nil {
				return "bad-op"
			}
			obs = append(obs, guard(func() string { *s.IndexRef(p) = int(v); return "." }))
		case f[0] == "r" && len(f) == 2:
			n, e1 := strconv.Atoi(f[1])
			if e1 != nil || n > 1<<24 {
				return "bad-op"
			}
			obs = append(obs, guard(func() string { s.Reserve(n); return "." }))
		case op == "c":
			obs = append(obs, guard(func() string { s.Clear(); return "." }))
		case op == "w":
			obs = append(obs, guard(func() string { s.Swap(&o); return "." }))
		case op == "a":
			obs = append(obs, guard(func() string { s.DeepAssign(o); return "." }))
		case op == "l":
			obs = append(obs, guard(func() string { return strconv.Itoa(s.Len()) }))
		case op == "k":
			obs = append(obs, guard(func() string { return strconv.Itoa(s.Cap()) }))
		case op == "S":
			obs = append(obs, guard(func() string { a, b := s.Slices(); return ints(a) + "|" + ints(b) }))
		case op == "D":
			obs = append(obs, guard(func() string { return csDump(&s) + "|" + csDump(&o) }))
		default:
			return "bad-op"
		}
	}
	return "ok " + strings.Join(obs, ",")
}

func handle(line string) (res string) {
	defer func() {
		if r := recover(); r != nil {
			res = "panic"
		}
	}()
	f := strings.Fields(line)
	if len(f) != 2 {
		return "bad-op"
	}
	switch f[0] {
	case "algo.tree":
		return runTree(strings.Split(f[1], ","))
	case "algo.circ":
		return runCirc(strings.Split(f[1], ","))
	}
	return "bad-op"
}

func main() {
	in := bufio.NewReaderSize(os.Stdin, 1<<20)
	out := bufio.NewWriterSize(os.Stdout, 1<<20)
	defer out.Flush()
	for {
		line, err := in.ReadString('\n')
		if len(line) > 0 {
			fmt.Fprintln(out, handle(strings.TrimRight(line, "\r\n")))
		}
		if err != nil {
			return
		}
	}
}
