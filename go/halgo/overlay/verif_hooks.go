//go:build verif

package algo

// Read-only accessors for the verification harness (overlaid into this package at build time; never part of a
// normal build).

func VerifRoot[K any, V any, C comparator[K]](t *TreeMap[K, V, C]) *TreeNode[Entry[K, V]] {
	return t.root
}

func VerifNode[T any](n *TreeNode[T]) (value T, left *TreeNode[T], right *TreeNode[T], height int32) {
	return n.value, n.left, n.right, n.height
}

func VerifValidate[K any, V any, C comparator[K]](t *TreeMap[K, V, C]) {
	t.validate()
}

func VerifCircular[T any](s *CircularSlice[T]) (elements []T, readPos int, writePos int) {
	return s.elements, s.read_pos, s.write_pos
}
