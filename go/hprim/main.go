//go:build verif

// Harness for the `prim` family: runs pkg/basictl on the same case lines as the Lean model.
package main

import (
	"bufio"
	"encoding/hex"
	"errors"
	"fmt"
	"io"
	"os"
	"strconv"
	"strings"

	"github.com/VKCOM/tl/pkg/basictl"
)

func unhex(s string) ([]byte, bool) {
	if s == "-" {
		return []byte{}, true
	}
	b, err := hex.DecodeString(s)
	return b, err == nil
}

func hx(b []byte) string {
	if len(b) == 0 {
		return "-"
	}
	return hex.EncodeToString(b)
}

func errStr(err error) string {
	if errors.Is(err, io.ErrUnexpectedEOF) {
		return "err eof"
	}
	return "err rej"
}

func handle(line string) (res string) {
	defer func() {
		if r := recover(); r != nil {
			res = "panic"
		}
	}()
	f := strings.Fields(line)
	if len(f) == 0 {
		return "bad-op"
	}
	op, args := f[0], f[1:]
	switch {
	case op == "prim.sw" && len(args) == 1:
		s, ok := unhex(args[0])
		if !ok {
			return "bad-op"
		}
		w := basictl.StringWrite(nil, string(s))
		w2 := basictl.StringWriteBytes([]byte{0xAA}, s)
		if string(w2[1:]) != string(w) {
			return "ok " + hx(w) + " BYTES-VARIANT-DIFFERS " + hx(w2[1:])
		}
		return "ok " + hx(w)
	case op == "prim.swlen" && len(args) == 1:
		n, err := strconv.ParseUint(args[0], 10, 63)
		if err != nil {
			return "bad-op"
		}
		w, p := basictl.StringWriteLen(nil, int(n))
		return fmt.Sprintf("ok %s %d", hx(w), p)
	case op == "prim.sr" && len(args) == 1:
		r, ok := unhex(args[0])
		if !ok {
			return "bad-op"
		}
		var s string
		rest, err := basictl.StringRead(r, &s)
		b := []byte("dirty-previous-content")
		rest2, err2 := basictl.StringReadBytes(r, &b)
		var out string
		if err != nil {
			out = errStr(err)
		} else {
			out = fmt.Sprintf("ok %s %d", hx([]byte(s)), len(r)-len(rest))
		}
		var out2 string
		if err2 != nil {
			out2 = errStr(err2)
		} else {
			out2 = fmt.Sprintf("ok %s %d", hx(b), len(r)-len(rest2))
		}
		if out != out2 {
			return out + " BYTES-VARIANT-DIFFERS " + out2
		}
		return out
	case op == "prim.sz" && len(args) == 1:
		n, err := strconv.ParseUint(args[0], 10, 63)
		if err != nil {
			return "bad-op"
		}
		w := basictl.TL2WriteSize(nil, int(n))
		buf := make([]byte, 16)
		c := basictl.TL2PutSize(buf, int(n))
		return fmt.Sprintf("ok %s %d %s %d", hx(w), basictl.TL2CalculateSize(int(n)), hx(buf[:c]), c)
	case op == "prim.szr" && len(args) == 1:
		r, ok := unhex(args[0])
		if !ok {
			return "bad-op"
		}
		rest, l, err := basictl.TL2ParseSize(r)
		if err != nil {
			return errStr(err)
		}
		return fmt.Sprintf("ok %d %d", l, len(r)-len(rest))
	case op == "prim.s2w" && len(args) == 1:
		s, ok := unhex(args[0])
		if !ok {
			return "bad-op"
		}
		w := basictl.StringWriteTL2(nil, string(s))
		w2 := basictl.StringWriteTL2Bytes(nil, s)
		if string(w) != string(w2) {
			return "ok " + hx(w) + " BYTES-VARIANT-DIFFERS"
		}
		return "ok " + hx(w)
	case op == "prim.s2r" && len(args) == 1:
		r, ok := unhex(args[0])
		if !ok {
			return "bad-op"
		}
		var s string
		rest, err := basictl.StringReadTL2(r, &s)
		b := []byte("dirty")
		rest2, err2 := basictl.StringReadTL2Bytes(r, &b)
		var out, out2 string
		if err != nil {
			out = errStr(err)
		} else {
			out = fmt.Sprintf("ok %s %d", hx([]byte(s)), len(r)-len(rest))
		}
		if err2 != nil {
			out2 = errStr(err2)
		} else {
			out2 = fmt.Sprintf("ok %s %d", hx(b), len(r)-len(rest2))
		}
		if out != out2 {
			return out + " BYTES-VARIANT-DIFFERS " + out2
		}
		return out
	case op == "prim.bw" && len(args) == 1:
		var v []bool
		if args[0] != "-" {
			for _, c := range args[0] {
				v = append(v, c == '1')
			}
		}
		return "ok " + hx(basictl.VectorBitContentWriteTL2(nil, v))
	case op == "prim.br" && len(args) == 2:
		n, err := strconv.Atoi(args[0])
		r, ok := unhex(args[1])
		if err != nil || !ok || n < 0 {
			return "bad-op"
		}
		v := make([]bool, n)
		for i := range v {
			v[i] = i%3 == 0 // dirty
		}
		rest, err := basictl.VectorBitContentReadTL2(r, v)
		if err != nil {
			return errStr(err)
		}
		var sb strings.Builder
		for _, b := range v {
			if b {
				sb.WriteByte('1')
			} else {
				sb.WriteByte('0')
			}
		}
		s := sb.String()
		if s == "" {
			s = "-"
		}
		return fmt.Sprintf("ok %s %d", s, len(r)-len(rest))
	case op == "prim.nw" && len(args) == 1:
		n, err := strconv.ParseUint(args[0], 10, 32)
		if err != nil {
			return "bad-op"
		}
		return "ok " + hx(basictl.NatWrite(nil, uint32(n)))
	case op == "prim.nr" && len(args) == 1:
		r, ok := unhex(args[0])
		if !ok {
			return "bad-op"
		}
		var v uint32
		rest, err := basictl.NatRead(r, &v)
		if err != nil {
			return errStr(err)
		}
		return fmt.Sprintf("ok %d %d", v, len(r)-len(rest))
	}
	return "bad-op"
}

func main() {
	in := bufio.NewReaderSize(os.Stdin, 1<<20)
	out := bufio.NewWriterSize(os.Stdout, 1<<20)
	defer out.Flush()
	for {
		line, err := in.ReadString('\n')
		if len(line) > 0 {
			fmt.Fprintln(out, handle(strings.TrimRight(line, "\r\n")))
		}
		if err != nil {
			return
		}
	}
}
