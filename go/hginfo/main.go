//go:build verif

// hginfo: takes the command line of tl2gen, runs the Go generator up to (not including) code emission and prints,
// as one JSON line, the per-field decisions the FillRandom / accessor templates depend on (see overlay/verif_ginfo.go).
package main

import (
	"encoding/json"
	"flag"
	"fmt"
	"io"
	"os"

	"github.com/VKCOM/tl/internal/pure"
	"github.com/VKCOM/tl/internal/puregen"
	"github.com/VKCOM/tl/internal/puregen/gengo"
)

func main() {
	opt := puregen.Options{ErrorWriter: io.Discard}
	opt.Bind(flag.CommandLine, "go")
	flag.Parse()
	if err := opt.Validate(); err != nil {
		fmt.Fprintln(os.Stderr, err)
		os.Exit(3)
	}
	old := os.Stdout
	if null, err := os.OpenFile(os.DevNull, os.O_WRONLY, 0); err == nil {
		os.Stdout = null
	}
	kernel := pure.NewKernel(&opt.Kernel)
	if err := kernel.AddFilesFromPaths(flag.Args()); err != nil {
		fmt.Fprintln(os.Stderr, err)
		os.Exit(3)
	}
	res, err := gengo.VerifTypeInfo(kernel, &opt)
	os.Stdout = old
	if err != nil {
		fmt.Fprintln(os.Stderr, err)
		os.Exit(3)
	}
	out, _ := json.Marshal(map[string]any{"types": res})
	os.Stdout.Write(out)
	fmt.Println()
}
