//go:build verif

// Overlaid into internal/puregen/gengo by the C18/C43 checks (never part of the repository): exports what the Go
// generator decided per struct field before emitting code — the Go field name, the `recursive` flag (pointer field,
// IncreaseDepth/DecreaseDepth site in FillRandom) — and the kernel's nat-field usage that selects
// RandomFieldMask / RandomSize in the FillRandom template.
package gengo

import (
	"github.com/VKCOM/tl/internal/pure"
	"github.com/VKCOM/tl/internal/puregen"
)

type VerifField struct {
	GoName     string `json:"go"`
	Recursive  bool   `json:"rec"`
	UsedAsMask bool   `json:"um"`
	UsedAsSize bool   `json:"us"`
	UsedBits   uint32 `json:"bits"`
}

type VerifType struct {
	Name   string       `json:"name"` // canonical name (key shared with the kernel descriptor)
	GoName string       `json:"go"`
	Kind   string       `json:"kind"`
	Fields []VerifField `json:"fields"`
}

func VerifTypeInfo(kernel *pure.Kernel, options *puregen.Options) ([]VerifType, error) {
	options.Kernel.InstantiateConstants = true
	if err := kernel.Compile(); err != nil {
		return nil, err
	}
	gen := genGo{
		kernel:         kernel,
		options:        options,
		Namespaces:     map[string]*Namespace{},
		generatedTypes: map[string]*TypeRWWrapper{},
	}
	if err := gen.prepareOptions(); err != nil {
		return nil, err
	}
	gen.bytesWhiteList = pure.NewWhiteList("--generateByteVersions", options.BytesWhiteList)
	gen.rawHandlerWhileList = pure.NewWhiteList("--rawHandlerWhiteList", options.Go.RawHandlerWhileList)
	if err := gen.compile(); err != nil {
		return nil, err
	}
	var res []VerifType
	for _, w := range gen.generatedTypesList {
		vt := VerifType{Name: w.pureType.CanonicalName(), GoName: w.goGlobalName}
		switch t := w.trw.(type) {
		case *TypeRWStruct:
			vt.Kind = "struct"
			for i, f := range t.Fields {
				u := t.pureTypeStruct.GetNatFieldUsage(i, true, true)
				vf := VerifField{GoName: f.goName, Recursive: f.recursive, UsedAsMask: u.UsedAsMask, UsedAsSize: u.UsedAsSize}
				for _, b := range u.UsedBits() {
					vf.UsedBits |= 1 << b
				}
				vt.Fields = append(vt.Fields, vf)
			}
		case *TypeRWUnion:
			vt.Kind = "union"
			for _, f := range t.Fields {
				vt.Fields = append(vt.Fields, VerifField{GoName: f.goName, Recursive: f.recursive})
			}
		default:
			continue
		}
		res = append(res, vt)
	}
	return res, nil
}
