//go:build verif

// Verification overlay (mapped into pkg/rpc/udp at build time, never part of the repository).
//
// VerifSim re-drives the deterministic multi-transport simulator of fuzz_transport.go
// (doGoWriteStep, doGoReadStep, doEncHdrRcv, do*TimerBurn, checkInvariants are the repository's
// own functions) on a command string, with observation hooks in the places the simulator lets a
// caller put them (message handler, allocator, deallocator, accept handler) plus state sampling
// after every simulator step, and returns the event trace the Lean monitor consumes:
//
//	s<src>.<dst>.<msg>   message submitted on transport src for transport dst
//	d<src>.<dst>.<msg>   message handed to the handler of transport dst, coming from src
//	a<t>.<n> / r<t>.<n>  Transport.acquiredMemory of transport t went up / down by n
//	b<id> / f<id>        incoming message buffer id handed out by the allocator / released (handler
//	                     with canSave, or deallocator)
//	o<id> / g<id>        outgoing message buffer id handed to SendMessage / passed to the deallocator
//	p<conn>.<kind>.<v>   prefix sample of connection object conn: kind 0 = outgoing.ackSeqNoPrefix,
//	                     1 = incoming.ackPrefix, 2 = acks.ackPrefix (emitted when it changes)
//	z                    the network was repaired and no connection has anything left to send
//
// <msg> is m<counter>.<len> when the bytes are exactly verifContent(counter, len) (checked byte by
// byte at the observation point), otherwise x<hex> — so equal tokens mean equal contents.
package udp

import (
	"encoding/binary"
	"encoding/hex"
	"fmt"
	"net"
	"net/netip"
	"os"
	"sort"
	"strconv"
	"strings"
	"time"
)

type verifCtx struct {
	fctx     *FuzzTransportContext
	trace    []string
	lastMem  [transports]int64
	maxMem   int64
	bufIds   map[*byte]int
	bufOut   map[*byte]bool
	inLive   int
	outLive  int
	nextBuf  int
	connIds  map[*Connection]int
	connDesc []string
	lastPref map[[2]int]uint32
	havePref map[[2]int]bool
	counter  uint32
	nsub     int
	ndel     int
	stream   bool

	sawDupTimer bool
}

func (v *verifCtx) emit(s string) { v.trace = append(v.trace, s) }

// verifContent is the byte string of message number ctr with length n (n >= 4, multiple of 4):
// a 4-byte counter followed by a xorshift stream, so that every chunk of every message is different.
func verifContent(ctr uint32, n int) []byte {
	m := make([]byte, n)
	if n >= 4 {
		binary.LittleEndian.PutUint32(m, ctr)
	}
	x := uint64(ctr)*0x9E3779B97F4A7C15 + 0x1234567
	for i := 4; i < n; i++ {
		x ^= x << 13
		x ^= x >> 7
		x ^= x << 17
		m[i] = byte(x >> 24)
	}
	return m
}

func verifMsgToken(m []byte) string {
	if len(m) >= 4 {
		ctr := binary.LittleEndian.Uint32(m)
		if string(verifContent(ctr, len(m))) == string(m) {
			return "m" + strconv.Itoa(int(ctr)) + "." + strconv.Itoa(len(m))
		}
	}
	if len(m) == 0 {
		return "x-"
	}
	return "x" + hex.EncodeToString(m)
}

func (v *verifCtx) sampleMem(tId int) {
	t := v.fctx.ts[tId]
	if t == nil {
		return
	}
	cur := t.acquiredMemory
	if cur > v.lastMem[tId] {
		v.emit(fmt.Sprintf("a%d.%d", tId, cur-v.lastMem[tId]))
	} else if cur < v.lastMem[tId] {
		v.emit(fmt.Sprintf("r%d.%d", tId, v.lastMem[tId]-cur))
	}
	v.lastMem[tId] = cur
	if cur > v.maxMem {
		v.maxMem = cur
	}
}

func (v *verifCtx) bufKey(p *[]byte) *byte {
	// identity of the backing array (the slice header pointer is reused by pools)
	b := (*p)[:cap(*p)]
	if len(b) == 0 {
		return nil
	}
	return &b[0]
}

// bufAlloc / bufFree: incoming buffers (transport allocator) are events b/f, outgoing ones
// (messages handed to SendMessage) are o/g.
func (v *verifCtx) bufAlloc(p *[]byte, outgoing bool) {
	k := v.bufKey(p)
	id := v.nextBuf
	v.nextBuf++
	v.bufIds[k] = id
	v.bufOut[k] = outgoing
	if outgoing {
		v.outLive++
		v.emit("o" + strconv.Itoa(id))
	} else {
		v.inLive++
		v.emit("b" + strconv.Itoa(id))
	}
}

func (v *verifCtx) bufFree(p *[]byte) {
	k := v.bufKey(p)
	id, ok := v.bufIds[k]
	if !ok {
		v.emit("f999999") // release of a buffer that was never handed out
		return
	}
	if v.bufOut[k] {
		v.outLive--
		v.emit("g" + strconv.Itoa(id))
	} else {
		v.inLive--
		v.emit("f" + strconv.Itoa(id))
	}
}

func (v *verifCtx) handler(srcId, dstId int) MessageHandler {
	return func(message *[]byte, canSave bool) {
		v.sampleMem(dstId)
		v.emit(fmt.Sprintf("d%d.%d.%s", srcId, dstId, verifMsgToken(*message)))
		v.ndel++
		v.fctx.receivedMessages[RandomMessage{src: srcId, dst: dstId, message: string(*message)}] += 1
		if canSave {
			v.bufFree(message)
			v.fctx.deallocatedMessages++
		}
	}
}

func (v *verifCtx) connId(c *Connection, tId int) int {
	id, ok := v.connIds[c]
	if !ok {
		id = len(v.connIds)
		v.connIds[c] = id
		v.connDesc = append(v.connDesc, fmt.Sprintf("%d>%d", tId, portToTransportId(int(c.remotePort))))
	}
	return id
}

func (v *verifCtx) sampleAll() {
	for tId, t := range v.fctx.ts {
		if t == nil {
			continue
		}
		v.sampleMem(tId)
		if !v.sawDupTimer {
			seen := make(map[*Connection]bool, len(t.resendTimers.array.connections))
			for _, c := range t.resendTimers.array.connections {
				if seen[c] {
					v.sawDupTimer = true
				}
				seen[c] = true
			}
		}
		conns := make([]*Connection, 0, len(t.handshakeByPid))
		for _, c := range t.handshakeByPid {
			conns = append(conns, c)
		}
		sort.Slice(conns, func(i, j int) bool { return conns[i].remotePort < conns[j].remotePort })
		for _, c := range conns {
			id := v.connId(c, tId)
			vals := [3]uint32{c.outgoing.ackSeqNoPrefix, c.incoming.ackPrefix, c.acks.ackPrefix}
			for k, val := range vals {
				key := [2]int{id, k}
				if !v.havePref[key] || v.lastPref[key] != val {
					if v.havePref[key] || val != 0 {
						v.emit(fmt.Sprintf("p%d.%d.%d", id, k, val))
					}
					v.havePref[key] = true
					v.lastPref[key] = val
				}
			}
		}
	}
}

func (v *verifCtx) newMessage(transportId, dstId, messageSize int) {
	defer checkInvariants(v.fctx)
	message := verifContent(v.counter, messageSize)
	v.counter++
	conn, err := v.fctx.ts[transportId].ConnectTo(
		netip.MustParseAddrPort(v.fctx.ts[dstId].socketAddr.String()),
		v.handler(dstId, transportId),
		v.stream,
		nil,
	)
	if err != nil {
		panic(err)
	}
	v.emit(fmt.Sprintf("s%d.%d.%s", transportId, dstId, verifMsgToken(message)))
	v.nsub++
	v.fctx.sentMessages[RandomMessage{src: transportId, dst: dstId, message: string(message)}] += 1
	v.fctx.allocatedMessages++
	v.bufAlloc(&message, true)
	err = conn.SendMessage(&message)
	if err != nil {
		panic(err)
	}
}

// verifPatience: FuzzDyukov declares the protocol stuck after ONE repair round without a new
// received/acked chunk or generation; a handshake after a restart legitimately needs more rounds
// than that, so the instrumented driver only gives up after this many consecutive idle rounds.
const verifPatience = 8

var verifStepDebug = os.Getenv("VERIF_DEBUG") == "3"

// VerifSimResult is what the harness prints.
type VerifSimResult struct {
	Status     string // "settled", "stuck" (no progress while data is pending), "steps" (step bound hit), "panic"
	PanicMsg   string
	StuckClass string
	Flushed    bool
	EndDump    string
	Rounds     int
	Trace      []string
	Summary    string
}

// VerifSim interprets `fuzz` exactly as FuzzDyukov does (same verbs, same argument decoding, same
// simulator step functions), then repairs the network with FuzzDyukov's settle schedule until no
// connection has anything left to send.
func VerifSim(fuzz []byte, withBumpGenerationsAndRestarts bool, streamLike bool, maxSettleSteps int) (res VerifSimResult) {
	MaxChunkSize = MaxFuzzChunkSize
	fctx := &FuzzTransportContext{
		sentMessages:     make(map[RandomMessage]int),
		receivedMessages: make(map[RandomMessage]int),
	}
	v := &verifCtx{
		fctx:     fctx,
		bufIds:   make(map[*byte]int),
		bufOut:   make(map[*byte]bool),
		connIds:  make(map[*Connection]int),
		lastPref: make(map[[2]int]uint32),
		havePref: make(map[[2]int]bool),
		stream:   streamLike,
	}
	defer func() {
		if p := recover(); p != nil {
			res.Status = "panic"
			res.PanicMsg = fmt.Sprint(p)
			// canonical class of the panic (never the text) and whether the simulator had, at some point,
			// the same connection twice in a resend timer queue (impossible in the real goWrite, which
			// guards resendTimers.Add with inResendQueueFlag; doGoWriteStep of the simulator does not)
			class := "other"
			if strings.Contains(res.PanicMsg, "conn have not-acked chunks, but will not send it") {
				// the simulator's invariant ignores that a connection still waiting in the send queue
				// arms its resend timer when its turn comes (goWrite: needResendTimer after every datagram)
				class = "notacked-nosend-insendq"
				for _, t := range fctx.ts {
					for _, c := range t.handshakeByPid {
						if c.outgoing.nonTimeoutedSeqNum < c.outgoing.nextSeqNo &&
							!(c.outgoing.haveChunksToSendNow(t) || c.GetFlag(inResendQueueFlag)) && !c.GetFlag(inSendQueueFlag) {
							class = "notacked-nosend"
						}
					}
				}
			}
			res.Summary = fmt.Sprintf("panic=%s duptimer=%v", class, v.sawDupTimer)
		}
		res.Trace = v.trace
	}()
	for tId := 0; tId < transports; tId++ {
		udpAddr, err := net.ResolveUDPAddr("udp", transportIdToAddress(tId))
		if err != nil {
			panic(err)
		}
		tIdCopy := tId
		fctx.ts[tId], err = NewTransport(
			MaxFuzzTransportMemory,
			[]string{"01234567890123456789012345678901"},
			nil,
			udpAddr,
			uint32(time.Now().Unix()),
			func(conn *Connection) {
				conn.MessageHandle = v.handler(addressToTransportId(conn.remoteAddr().String()), tIdCopy)
				conn.StreamLikeIncoming = streamLike
			},
			func(_ *Connection) {},
			func(size int) *[]byte {
				v.sampleMem(tIdCopy)
				fctx.allocatedMessages++
				m := make([]byte, size)
				v.bufAlloc(&m, false)
				return &m
			},
			func(p *[]byte) {
				v.sampleMem(tIdCopy)
				fctx.deallocatedMessages++
				v.bufFree(p)
			},
			0, 0, false, false, nil, nil, nil, nil, nil, nil,
		)
		if err != nil {
			panic(err)
		}
		defer func() { _ = fctx.ts[tIdCopy].Close() }()
	}

	for i := 0; i+2 < len(fuzz); {
		cmdStart := i
		switch fuzz[i] {
		case 'n':
			transportId := fuzzVerbToTransportId(fuzz[i+1])
			dstId := fuzzVerbToDstId(fuzz[i+1])
			if dstId <= transportId {
				i += 3
				continue
			}
			messageSize := fuzzVerbToMessageSize(fuzz[i+2])
			if messageSize == 0 {
				i += 3
				continue
			}
			v.newMessage(transportId, dstId, messageSize)
			i += 3
		case 'w':
			doGoWriteStep(fctx, fuzzVerbToTransportId(fuzz[i+1]))
			i += 2
		case 'r':
			doGoReadStep(fctx, fuzzVerbToTransportId(fuzz[i+1]), int(fuzz[i+2]))
			i += 3
		case 'e':
			doEncHdrRcv(fctx, fuzzVerbToTransportId(fuzz[i+1]))
			i += 2
		case 't':
			transportId := fuzzVerbToTransportId(fuzz[i+1])
			timerId := fuzzVerbToDstId(fuzz[i+1])
			if timerId == 0 {
				doResendTimerBurn(fctx, transportId)
			} else if timerId == 1 {
				doAckTimerBurn(fctx, transportId)
			} else if timerId == 2 {
				doResendRequestTimerBurn(fctx, transportId)
			} else if withBumpGenerationsAndRestarts && timerId == 3 {
				doRegenerateTimerBurn(fctx, transportId)
			} else {
				i += 2
				continue
			}
			i += 2
		case 'd':
			transportId := fuzzVerbToTransportId(fuzz[i+1])
			dgrmId := int(fuzz[i+2])
			l := len(fctx.network[transportId])
			if l > 0 {
				datagram := fctx.network[transportId][dgrmId%l]
				fctx.network[transportId] = append(fctx.network[transportId], datagram)
			}
			checkInvariants(fctx)
			i += 3
		case 'l':
			transportId := fuzzVerbToTransportId(fuzz[i+1])
			dgrmId := int(fuzz[i+2])
			l := len(fctx.network[transportId])
			if l > 0 {
				fctx.network[transportId][dgrmId%l] = fctx.network[transportId][l-1]
				fctx.network[transportId] = fctx.network[transportId][:l-1]
			}
			checkInvariants(fctx)
			i += 3
		default:
			i += 1
			continue
		}
		v.sampleAll()
		if verifStepDebug {
			fmt.Fprintf(os.Stderr, "--- after command ending at byte %d (%c)\n%s", i, fuzz[cmdStart], verifDump(fctx))
		}
	}

	// ---- repair the network: FuzzDyukov's settle schedule, run until quiescence
	type progress struct {
		generation       uint32
		receivedPrefix   uint32
		receivedInWindow int
		ackedPrefix      uint32
		acksInWindow     int
	}
	var progressStatuses [transports][transports]progress
	writeAll := func() {
		for tId, t := range fctx.ts {
			conns := len(t.handshakeByPid)
			for i := 0; i < conns; i++ {
				doGoWriteStep(fctx, tId)
				v.sampleAll()
			}
		}
	}
	readAll := func() {
		for tId := range fctx.ts {
			for len(fctx.network[tId]) > 0 {
				doGoReadStep(fctx, tId, 0)
				v.sampleAll()
			}
		}
	}
	hdrAll := func() {
		for tId := range fctx.ts {
			for len(fctx.encHdrs[tId]) > 0 {
				doEncHdrRcv(fctx, tId)
			}
		}
	}
	res.Status = "steps"
	idle := 0
	for step := 0; step < maxSettleSteps; step++ {
		for tId, t := range fctx.ts {
			for t.resendRequestTimers.Len() > 0 {
				doResendRequestTimerBurn(fctx, tId)
			}
		}
		writeAll()
		readAll()
		hdrAll()
		for i := 0; i < 2; i++ {
			for tId, t := range fctx.ts {
				for t.resendTimers.Len() > 0 {
					doResendTimerBurn(fctx, tId)
				}
			}
			writeAll()
		}
		readAll()
		hdrAll()
		for tId, t := range fctx.ts {
			for t.ackTimers.Len() > 0 {
				doAckTimerBurn(fctx, tId)
			}
		}
		writeAll()
		readAll()
		hdrAll()
		writeAll()

		pending := false
		haveProgress := false
		for tId, t := range fctx.ts {
			for _, conn := range t.handshakeByPid {
				srcId := portToTransportId(int(portFromNetPid(conn.remotePid())))
				receivedChunks := 0
				for s := conn.incoming.ackPrefix; s < conn.incoming.nextSeqNo; s++ {
					ch, _ := conn.incoming.windowChunks.Get(s)
					if ch.received() {
						receivedChunks++
					}
				}
				ackedChunks := 0
				for s := conn.outgoing.ackSeqNoPrefix; s < conn.outgoing.nextSeqNo; s++ {
					if conn.outgoing.window.GetPtr(s).acked() {
						ackedChunks++
					}
				}
				was := progressStatuses[srcId][tId]
				now := progress{conn.generation, conn.incoming.ackPrefix, receivedChunks, conn.outgoing.ackSeqNoPrefix, ackedChunks}
				if was.generation < now.generation ||
					was.receivedPrefix < now.receivedPrefix || (was.receivedPrefix == now.receivedPrefix && was.receivedInWindow < now.receivedInWindow) ||
					was.ackedPrefix < now.ackedPrefix || (was.ackedPrefix == now.ackedPrefix && was.acksInWindow < now.acksInWindow) {
					haveProgress = true
				}
				progressStatuses[srcId][tId] = now
				a := conn.outgoing.messageQueue.Len() > 0
				b := conn.outgoing.timeoutedSeqNum < conn.outgoing.nextSeqNo
				c := conn.incoming.windowChunks.LenMoreThan1()
				if a || b || c {
					pending = true
				}
			}
		}
		// FuzzDyukov stops as soon as no connection "has data to send"; acknowledgements may still be
		// on their way then.  We only call the network settled when nothing at all is in flight:
		// no datagram, no header hand-over, no armed ack / resend-request timer, no goWrite event.
		for tId, t := range fctx.ts {
			if len(fctx.network[tId]) > 0 || len(fctx.encHdrs[tId]) > 0 || t.ackTimers.Len() > 0 ||
				t.resendRequestTimers.Len() > 0 || !t.noGoWriteEvents() {
				pending = true
			}
		}
		res.Rounds = step + 1
		if !pending {
			res.Status = "settled"
			break
		}
		if haveProgress {
			idle = 0
		} else {
			idle++
		}
		if idle >= verifPatience {
			res.Status = "stuck"
			// classify: is every connection that still has something pending talking to a peer whose
			// connection object for it has a different generation (peer restarted, this side not told)?
			res.StuckClass = "genmismatch"
			obsGen := false
			for tId, t := range fctx.ts {
				for _, conn := range t.handshakeByPid {
					a := conn.outgoing.messageQueue.Len() > 0
					b := conn.outgoing.timeoutedSeqNum < conn.outgoing.nextSeqNo
					c := conn.incoming.windowChunks.LenMoreThan1()
					if !(a || b || c) {
						continue
					}
					if conn.status == ConnectionSentObsoleteGeneration {
						// goWrite() resets this status after the datagram is queued; the simulator's
						// doGoWriteStep does not, so the connection only ever sends obsolete-generation notices
						obsGen = true
					}
					peerId := portToTransportId(int(conn.remotePort))
					same := false
					for _, pc := range fctx.ts[peerId].handshakeByPid {
						if portToTransportId(int(pc.remotePort)) == tId && pc.generation == conn.generation {
							same = true
						}
					}
					if same {
						res.StuckClass = "other"
					}
				}
			}
			if res.StuckClass == "other" && obsGen {
				res.StuckClass = "obsgen"
			}
			if res.StuckClass == "other" {
				// a connection whose peer restarted (different generation on the other side) still holds
				// acquired incoming memory: the waiters behind it can starve
				for tId, t := range fctx.ts {
					for _, conn := range t.handshakeByPid {
						if conn.incoming.messagesTotalOffset-conn.incoming.messagesBeginOffset <= 0 {
							continue
						}
						peerId := portToTransportId(int(conn.remotePort))
						same := false
						for _, pc := range fctx.ts[peerId].handshakeByPid {
							if portToTransportId(int(pc.remotePort)) == tId && pc.generation == conn.generation {
								same = true
							}
						}
						if !same && t.memoryWaiters.Len() > 0 {
							res.StuckClass = "stalemem"
						}
					}
				}
			}
			res.PanicMsg += verifDump(fctx)
			break
		}
	}
	v.sampleAll()
	// memory attributed to no live connection: a connection's share of Transport.acquiredMemory is
	// messagesTotalOffset - messagesBeginOffset minus the messages already handed over (and released)
	// that are still inside the window (only possible when StreamLikeIncoming is off)
	orphan := int64(0)
	for _, t := range fctx.ts {
		orphan += t.acquiredMemory
		for _, conn := range t.handshakeByPid {
			in := &conn.incoming
			orphan -= in.messagesTotalOffset - in.messagesBeginOffset
			seen := map[*IncomingMessage]bool{}
			for s := in.ackPrefix; s < in.nextSeqNo; s++ {
				ch, ok := in.windowChunks.Get(s)
				if !ok || !ch.received() || ch.message == nil {
					continue
				}
				if ch.message == &fakeMessage {
					orphan += int64(ch.messageSize)
				} else if ch.message.data == nil && !seen[ch.message] {
					seen[ch.message] = true
					orphan += int64(ch.messageSize)
				}
			}
		}
	}
	if res.Status == "settled" && withBumpGenerationsAndRestarts {
		// With restarts messages are legitimately dropped and a receiver may keep a half-received
		// message of a peer that restarted. To observe "fully released" we close every connection
		// the way the transport itself does (closedFlag + closedConnections for goWrite,
		// resetGoReadUnlockedState for goRead) and let goWrite process the closures.
		for tId, t := range fctx.ts {
			conns := make([]*Connection, 0, len(t.handshakeByPid))
			for _, c := range t.handshakeByPid {
				conns = append(conns, c)
			}
			sort.Slice(conns, func(i, j int) bool { return conns[i].remotePort < conns[j].remotePort })
			for _, conn := range conns {
				t.writeMu.Lock()
				conn.SetFlag(closedFlag, true)
				conn.resetLockedState()
				t.closedConnections.PushBack(conn)
				t.writeMu.Unlock()
				conn.resetGoReadUnlockedState()
				v.sampleMem(tId)
			}
			t.writeMu.Lock()
			datagram, _, _, _, _, _ := t.goWriteStep()
			if datagram == nil {
				t.writeMu.Unlock()
			}
			v.sampleMem(tId)
		}
		res.Flushed = true
	}
	if res.Status == "settled" {
		v.emit("z")
		res.EndDump = verifDump(fctx)
	}

	// ---- summary taken from the simulator's own state (not from the trace)
	var sb strings.Builder
	nsent, nrecv := 0, 0
	for _, c := range fctx.sentMessages {
		nsent += c
	}
	for _, c := range fctx.receivedMessages {
		nrecv += c
	}
	missing, extra := 0, 0
	for m, c := range fctx.sentMessages {
		if r := fctx.receivedMessages[m]; r < c {
			missing += c - r
		}
	}
	for m, c := range fctx.receivedMessages {
		if s := fctx.sentMessages[m]; c > s {
			extra += c - s
		}
	}
	fmt.Fprintf(&sb, "sub=%d del=%d missing=%d extra=%d live=%d outlive=%d maxmem=%d mem=", nsent, nrecv, missing, extra,
		fctx.allocatedMessages-fctx.deallocatedMessages-v.outLive, v.outLive, v.maxMem)
	total := int64(0)
	for _, t := range fctx.ts {
		total += t.acquiredMemory
	}
	fmt.Fprintf(&sb, "%d", total)
	// memory attributed to no live connection (stream-like mode: a connection's share is exactly
	// messagesTotalOffset - messagesBeginOffset)
	fmt.Fprintf(&sb, " orphan=%d rounds=%d", orphan, res.Rounds)
	if res.Status == "stuck" {
		fmt.Fprintf(&sb, " stuck=%s", res.StuckClass)
	}
	res.Summary = sb.String()
	return res
}

func verifDump(fctx *FuzzTransportContext) string {
	res := VerifSimResult{}
	for tId, t := range fctx.ts {
		for _, conn := range t.handshakeByPid {
			res.PanicMsg += fmt.Sprintf("t%d->%d gen=%d status=%d flags=%b gwflags=%b active=%v needLast=%v\n  OUT: ackPrefix=%d next=%d timeouted=%d nonTimeouted=%d notSended=%d toSend=%d queue=%d\n  IN: ackPrefix=%d next=%d inWaiters=%v requested=%d total=%d begin=%d wc=%d\n  ACKS: prefix=%d holes=%v\n  T: acquired=%d waiters=%d sendq=%d resendT=%d ackT=%d rrT=%d regenT=%d net=%d\n",
				tId, portToTransportId(int(conn.remotePort)), conn.generation, conn.status, conn.flags, conn.goWriteFlags, conn.activeSide, conn.needDatagramWithLastGenerationFromRemoteSide,
				conn.outgoing.ackSeqNoPrefix, conn.outgoing.nextSeqNo, conn.outgoing.timeoutedSeqNum, conn.outgoing.nonTimeoutedSeqNum, conn.outgoing.notSendedSeqNum, conn.outgoing.chunkToSendSeqNum, conn.outgoing.messageQueue.Len(),
				conn.incoming.ackPrefix, conn.incoming.nextSeqNo, conn.incoming.inMemoryWaitersQueue, conn.incoming.requestedMemorySize, conn.incoming.messagesTotalOffset, conn.incoming.messagesBeginOffset, conn.incoming.windowControl,
				conn.acks.ackPrefix, conn.acks.HaveHoles(),
				t.acquiredMemory, t.memoryWaiters.Len(), t.connectionSendQueue.Len(), t.resendTimers.Len(), t.ackTimers.Len(), t.resendRequestTimers.Len(), t.regenerateTimers.Len(), len(fctx.network[tId]))
		}
	}
	return res.PanicMsg
}

// VerifFuzzDyukov runs the repository's own fuzz target (its verdict is "returns" or "panics").
func VerifFuzzDyukov(fuzz []byte, restarts bool) int { return FuzzDyukov(fuzz, restarts) }

// VerifLimit is the configured incoming memory limit of every simulated transport.
func VerifLimit() int { return MaxFuzzTransportMemory }
