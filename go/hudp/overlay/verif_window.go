//go:build verif

// Verification overlay: drives one real IncomingConnection / OutgoingConnection directly, for the
// differential tie of the Lean window model (lean/TLVerif/Udp/Window.lean).
package udp

import (
	"fmt"
	"net"
	"strconv"
	"strings"

	"github.com/VKCOM/tl/internal/vkgo/pkg/basictl"
	"github.com/VKCOM/tl/pkg/rpc/internal/gen/tlnet"
	"github.com/VKCOM/tl/pkg/rpc/internal/gen/tlnetUdpPacket"
)

// verifWinByte is byte number o of message number i (the Lean driver uses the same function).
func verifWinByte(i, o int) byte { return byte((i*37 + o*11 + 5) % 256) }

func verifChecksum(m []byte) uint32 {
	var s uint32
	for k, b := range m {
		s = s*31 + uint32(b)*(uint32(k)%7+1) + 1
	}
	return s
}

type verifWinChunk struct {
	msg, prev, next  int
	off              int64 // stream offset of the chunk
	prevLen, nextLen int
	payload          []byte
}

func verifParseMsgs(spec string) ([]verifWinChunk, bool) {
	var chunks []verifWinChunk
	if spec == "-" {
		return chunks, true
	}
	streamOff := int64(0)
	for i, ms := range strings.Split(spec, ",") {
		var lens []int
		total := 0
		for _, ps := range strings.Split(ms, ".") {
			n, err := strconv.Atoi(ps)
			if err != nil || n <= 0 {
				return nil, false
			}
			lens = append(lens, n)
			total += n
		}
		o := 0
		for j, n := range lens {
			p := make([]byte, n)
			for k := range p {
				p[k] = verifWinByte(i, o+k)
			}
			chunks = append(chunks, verifWinChunk{msg: i, prev: j, next: len(lens) - 1 - j, off: streamOff + int64(o),
				prevLen: o, nextLen: total - o - n, payload: p})
			o += n
		}
		streamOff += int64(total)
	}
	return chunks, true
}

func verifNewTransport(limit int64, dealloc func(*[]byte)) *Transport {
	udpAddr, err := net.ResolveUDPAddr("udp", "127.0.0.1:22899")
	if err != nil {
		panic(err)
	}
	t, err := NewTransport(limit, []string{"01234567890123456789012345678901"}, nil, udpAddr, 1,
		func(*Connection) {}, func(*Connection) {}, nil, dealloc, 0, 0, false, false, nil, nil, nil, nil, nil, nil)
	if err != nil {
		panic(err)
	}
	return t
}

// VerifRecv feeds datagrams (ranges "from+count" of the chunk stream given by spec) to a real
// IncomingConnection with StreamLikeIncoming and reports, per datagram, the receive prefix, the number of
// messages handed over so far and the range the connection reports as received; then the messages.
func VerifRecv(spec string, arrivals string) string {
	chunks, ok := verifParseMsgs(spec)
	if !ok {
		return "bad-op"
	}
	t := verifNewTransport(1<<30, nil)
	conn := t.createConnection(ConnectionStatusEstablished, t.localPid.Ip, tlnet.Pid{Ip: t.localPid.Ip, PortPid: 22898}, 0, false)
	var delivered []string
	conn.MessageHandle = func(m *[]byte, canSave bool) {
		delivered = append(delivered, fmt.Sprintf("%d:%d", len(*m), verifChecksum(*m)))
	}
	conn.StreamLikeIncoming = true
	var steps []string
	if arrivals != "-" {
		for _, a := range strings.Split(arrivals, ",") {
			fc := strings.Split(a, "+")
			if len(fc) != 2 {
				return "bad-op"
			}
			from, err1 := strconv.Atoi(fc[0])
			count, err2 := strconv.Atoi(fc[1])
			if err1 != nil || err2 != nil || count < 1 {
				return "bad-op"
			}
			if from+count > len(chunks) {
				steps = append(steps, fmt.Sprintf("p%dd%dr-", conn.incoming.ackPrefix, len(delivered)))
				continue
			}
			var enc tlnetUdpPacket.EncHeader
			var req tlnetUdpPacket.ResendRequest
			first, last := chunks[from], chunks[from+count-1]
			var payload []byte
			if count == 1 {
				enc.SetPacketNum(uint32(from))
				payload = append(payload, first.payload...)
			} else {
				enc.SetPacketsFrom(uint32(from))
				enc.SetPacketsCount(uint32(count))
				for _, c := range chunks[from : from+count] {
					payload = basictl.NatWrite(payload, uint32(len(c.payload)))
					payload = append(payload, c.payload...)
				}
			}
			enc.SetPrevParts(uint32(first.prev))
			enc.SetNextParts(uint32(last.next))
			enc.SetPacketOffset(first.off)
			enc.SetPrevLength(uint32(first.prevLen))
			enc.SetNextLength(uint32(last.nextLen))
			closed, err := conn.incoming.ReceiveDatagram(&enc, &req, payload)
			if err != nil || closed {
				return "err"
			}
			r := "-"
			if enc.IsSetPacketNum() {
				r = fmt.Sprintf("%d-%d", enc.PacketNum, enc.PacketNum)
			} else if enc.IsSetPacketsFrom() {
				r = fmt.Sprintf("%d-%d", enc.PacketsFrom, enc.PacketsFrom+enc.PacketsCount-1)
			}
			steps = append(steps, fmt.Sprintf("p%dd%dr%s", conn.incoming.ackPrefix, len(delivered), r))
			conn.incoming.checkInvariants()
		}
	}
	return "ok " + dash(strings.Join(steps, ",")) + " " + dash(strings.Join(delivered, ",")) + " mem=" + strconv.FormatInt(t.acquiredMemory, 10)
}

func dash(s string) string {
	if s == "" {
		return "-"
	}
	return s
}

// VerifSend drives a real OutgoingConnection: m<parts> slices a new message of that many chunks into
// the window (28-byte chunks, the last one 4 bytes), s<len> a one-chunk message of len bytes, c<seq> is
// AckChunk, p<n> is AckPrefix, t0 is OnResendTimeout, r<a>-<b>/<c>-<d> installs a resend request the way
// goWriteStep does, g0 is GetChunksToSend. After every operation the prefix, the end of the window, the
// acknowledged flags inside the window, the number of released messages and the four send cursors are
// reported; after g0 also the first sequence number, the single-message flag, the sequence numbers of the
// chunks actually returned (identified by their payload slices) and the resend cursors.
func VerifSend(ops string) string {
	MaxChunkSize = MaxFuzzChunkSize
	var released []string
	t := verifNewTransport(1<<30, func(p *[]byte) {
		b := (*p)[:cap(*p)]
		released = append(released, strconv.Itoa(int(b[0])))
	})
	conn := t.createConnection(ConnectionStatusEstablished, t.localPid.Ip, tlnet.Pid{Ip: t.localPid.Ip, PortPid: 22898}, 0, true)
	o := &conn.outgoing
	var steps []string
	nmsg := 0
	newMsg := func(size int) {
		msg := make([]byte, size)
		msg[0] = byte(nmsg)
		nmsg++
		o.messageQueue.PushBack(&OutgoingMessage{payload: &msg, seqNo: (1 << 32) - 1, offset: o.totalMessagesOffset, refCount: 1})
		o.totalMessagesOffset += int64(len(msg))
		o.sliceNextMessage(t, 0)
	}
	if ops != "-" {
		for _, op := range strings.Split(ops, ",") {
			if len(op) < 2 {
				return "bad-op"
			}
			extra := ""
			if op[0] == 'r' {
				var req tlnetUdpPacket.ResendRequest
				for _, r := range strings.Split(op[1:], "/") {
					ab := strings.Split(r, "-")
					if len(ab) != 2 {
						return "bad-op"
					}
					a, err1 := strconv.Atoi(ab[0])
					b, err2 := strconv.Atoi(ab[1])
					if err1 != nil || err2 != nil {
						return "bad-op"
					}
					req.Ranges = append(req.Ranges, tlnetUdpPacket.ResendRange{PacketNumFrom: uint32(a), PacketNumTo: uint32(b)})
				}
				o.resendRanges = req
				o.resendIndex = 0
				o.rangeInnerIndex = 0
			} else {
				n, err := strconv.Atoi(op[1:])
				if err != nil {
					return "bad-op"
				}
				switch op[0] {
				case 'm':
					if n < 1 || nmsg > 250 {
						return "bad-op"
					}
					newMsg((t.maxOutgoingPayloadSize-4)*(n-1) + 4)
				case 's':
					if n < 1 || n > 28 || nmsg > 250 {
						return "bad-op"
					}
					newMsg(n)
				case 'c':
					_ = o.AckChunk(t, uint32(n))
				case 'p':
					_ = o.AckPrefix(t, uint32(n))
				case 't':
					o.OnResendTimeout()
				case 'g':
					chunks, first, single := o.GetChunksToSend(t, nil)
					var seqs []string
					for _, ch := range chunks {
						found := "?"
						for s := o.ackSeqNoPrefix; s < o.nextSeqNo; s++ {
							p := o.window.GetPtr(s)
							if p != nil && len(p.payload) > 0 && len(ch) > 0 && &p.payload[0] == &ch[0] {
								found = strconv.Itoa(int(s))
							}
						}
						seqs = append(seqs, found)
					}
					sg := 0
					if single {
						sg = 1
					}
					extra = fmt.Sprintf(":g%d.%d.%s.%d.%d", first, sg, dash(strings.Join(seqs, "+")), o.resendIndex, o.rangeInnerIndex)
				default:
					return "bad-op"
				}
			}
			var flags strings.Builder
			for s := o.ackSeqNoPrefix; s < o.nextSeqNo; s++ {
				p := o.window.GetPtr(s)
				if p == nil {
					flags.WriteByte('?')
				} else if p.acked() {
					flags.WriteByte('1')
				} else {
					flags.WriteByte('0')
				}
			}
			steps = append(steps, fmt.Sprintf("%d:%d:%s:%d:%d.%d.%d.%d%s", o.ackSeqNoPrefix, o.nextSeqNo, dash(flags.String()), len(released),
				o.timeoutedSeqNum, o.nonTimeoutedSeqNum, o.notSendedSeqNum, o.chunkToSendSeqNum, extra))
		}
	}
	return "ok " + dash(strings.Join(steps, ",")) + " " + dash(strings.Join(released, ","))
}
