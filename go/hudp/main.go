//go:build verif

// Harness for the `udp` family (C36). One case per line:
//
//	udp.sim <flags> <maxSettleSteps> <hex command string>
//	    flags bit0: with generation bumps / restarts, bit1: StreamLikeIncoming, bit2: also run the
//	    repository's own FuzzDyukov on the same commands (verdict only)
//	  -> "<status> <summary> fuzz=<ok|panic|skip> T <event trace, ';' separated>"
//	     status: settled | stuck | steps | panic   (panic: a recovered Go panic inside the simulator)
//
//	udp.rcv <messages> <arrivals>   one real IncomingConnection fed with chunk datagrams (see overlay/verif_window.go)
//	udp.snd <ops>                   one real OutgoingConnection: slicing, AckChunk, AckPrefix
//
// The event trace is produced by the overlay pkg/rpc/udp/verif_sim.go (see there for the grammar).
package main

import (
	"bufio"
	"encoding/hex"
	"fmt"
	"io"
	"log"
	"os"
	"strconv"
	"strings"

	"github.com/VKCOM/tl/pkg/rpc/udp"
)

func runFuzz(cmds []byte, restarts bool) (res string) {
	defer func() {
		if r := recover(); r != nil {
			if os.Getenv("VERIF_DEBUG") != "" {
				fmt.Fprintf(os.Stderr, "FuzzDyukov panic: %v\n", r)
			}
			res = "panic"
		}
	}()
	udp.VerifFuzzDyukov(cmds, restarts)
	return "ok"
}

func runSim(cmds []byte, restarts, stream bool, maxSteps int) (r udp.VerifSimResult) {
	defer func() {
		if p := recover(); p != nil { // panic outside VerifSim's own recover (e.g. in a deferred Close)
			r.Status, r.Summary, r.PanicMsg = "panic", "-", fmt.Sprint(p)
		}
	}()
	r = udp.VerifSim(cmds, restarts, stream, maxSteps)
	return r
}

func handle(line string) string {
	f := strings.Fields(line)
	if len(f) == 0 {
		return "bad-op"
	}
	switch {
	case f[0] == "udp.sim" && len(f) == 4:
		flags, err1 := strconv.Atoi(f[1])
		steps, err2 := strconv.Atoi(f[2])
		var cmds []byte
		var err3 error
		if f[3] != "-" {
			cmds, err3 = hex.DecodeString(f[3])
		}
		if err1 != nil || err2 != nil || err3 != nil {
			return "bad-op"
		}
		r := runSim(cmds, flags&1 != 0, flags&2 != 0, steps)
		status := r.Status
		if (status == "panic" || status == "stuck") && os.Getenv("VERIF_DEBUG") != "" {
			fmt.Fprintf(os.Stderr, "VerifSim panic: %s\n", r.PanicMsg)
		}
		if os.Getenv("VERIF_DEBUG") == "2" {
			fmt.Fprintf(os.Stderr, "end state:\n%s\n", r.EndDump)
		}
		fz := "skip"
		if flags&4 != 0 {
			fz = runFuzz(cmds, flags&1 != 0)
		}
		tr := strings.Join(r.Trace, ";")
		if tr == "" {
			tr = "-"
		}
		return status + " " + r.Summary + " fuzz=" + fz + " limit=" + strconv.Itoa(udp.VerifLimit()) + " T " + tr
	case f[0] == "udp.rcv" && len(f) == 3:
		return guard(func() string { return udp.VerifRecv(f[1], f[2]) })
	case f[0] == "udp.snd" && len(f) == 2:
		return guard(func() string { return udp.VerifSend(f[1]) })
	}
	return "bad-op"
}

func guard(fn func() string) (res string) {
	defer func() {
		if p := recover(); p != nil {
			if os.Getenv("VERIF_DEBUG") != "" {
				fmt.Fprintf(os.Stderr, "panic: %v\n", p)
			}
			res = "panic"
		}
	}()
	return fn()
}

func main() {
	log.SetOutput(io.Discard)
	in := bufio.NewReaderSize(os.Stdin, 1<<20)
	out := bufio.NewWriterSize(os.Stdout, 1<<20)
	defer out.Flush()
	for {
		line, err := in.ReadString('\n')
		if len(line) > 0 {
			fmt.Fprintln(out, handle(strings.TrimRight(line, "\r\n")))
			out.Flush()
		}
		if err != nil {
			break
		}
	}
}
