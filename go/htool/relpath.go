//go:build verif

package main

import (
	"encoding/hex"
	"io"

	"github.com/VKCOM/tl/internal/puregen"
	"github.com/VKCOM/tl/internal/puregen/gengo"
)

func init() {
	ops["tool.relpath"] = opRelPath
}

// tool.relpath <hex pkgPath> <hex basicPkgPath>  ->  ok <hex BasicPackageRelativePath | -> | err
func opRelPath(args []string) string {
	if len(args) != 2 {
		return "bad-op"
	}
	a, ok1 := unhexText(args[0])
	b, ok2 := unhexText(args[1])
	if !ok1 || !ok2 {
		return "bad-op"
	}
	opts := puregen.Options{ErrorWriter: io.Discard}
	opts.Go.TLPackageNameFull = a
	opts.Go.BasicPackageNameFull = b
	opts.Go.BasicRPCPath = "github.com/VKCOM/tl/pkg/rpc"
	rel, _, err := gengo.VerifPrepareOptions(&opts)
	if err != nil {
		return "err"
	}
	if rel == "" {
		return "ok -"
	}
	return "ok " + hex.EncodeToString([]byte(rel))
}
