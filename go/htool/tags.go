//go:build verif

package main

import (
	"flag"
	"fmt"
	"io"
	"os"
	"os/exec"
	"path/filepath"
	"strings"

	"github.com/VKCOM/tl/internal/pure"
	"github.com/VKCOM/tl/internal/puregen"
	"github.com/VKCOM/tl/internal/tlast"
	"github.com/VKCOM/tl/internal/tlcodegen"
)

func init() {
	ops["tool.crc"] = opCrc
	ops["tool.tags"] = func(a []string) string { return opTags(a, false) }
	ops["tool.tagscli"] = func(a []string) string { return opTags(a, true) }
}

const fileMarker = "//--file--\n"

func showTags(l []uint32) string {
	if len(l) == 0 {
		return "-"
	}
	var s []string
	for _, t := range l {
		s = append(s, fmt.Sprintf("%08x", t))
	}
	return strings.Join(s, ",")
}

// effective tags of the TL1 combinators of a text, as the generators see them
func tl1Tags(text string) ([]uint32, bool) {
	tl, err := tlast.ParseTLFile(text, "s.tl", tlast.LexerOptions{AllowDirty: true})
	if err != nil {
		return nil, false
	}
	var res []uint32
	for _, c := range tl.Combinators() {
		res = append(res, c.Crc32())
	}
	return res, true
}

func tl2Magics(text string) ([]uint32, bool) {
	tl, err := tlast.ParseTL2File(text, "s.tl2", tlast.LexerOptions{LexerLanguage: tlast.TL2})
	if err != nil {
		return nil, false
	}
	var res []uint32
	for _, c := range tl.Combinators {
		if c.IsFunction {
			res = append(res, c.FuncDecl.Magic)
		} else {
			res = append(res, c.TypeDecl.Magic)
		}
	}
	return res, true
}

// helper (not tied to the model): effective tags of a TL1 text
func opCrc(args []string) string {
	if len(args) != 1 {
		return "bad-op"
	}
	text, ok := unhexText(args[0])
	if !ok {
		return "bad-op"
	}
	tags, ok := tl1Tags(text)
	if !ok {
		return "err"
	}
	return "ok " + showTags(tags)
}

// the kernel path of cmd/tl2gen (runMain with --language=lint), in-process
func kernelLint(paths []string, extra ...string) error {
	opt := puregen.Options{ErrorWriter: io.Discard}
	fs := flag.NewFlagSet("tl2gen", flag.ContinueOnError)
	fs.SetOutput(io.Discard)
	opt.Bind(fs, "")
	if err := fs.Parse(append([]string{"--language=lint"}, extra...)); err != nil {
		return err
	}
	if err := opt.Validate(); err != nil {
		return err
	}
	kernel := pure.NewKernel(&opt.Kernel)
	if err := kernel.AddFilesFromPaths(paths); err != nil {
		return err
	}
	return kernel.Compile()
}

// the linter path of cmd/tlgen (runMain with empty --language), in-process
func legacyLint(tl1 string, tl2 string, hasTL2 bool) error {
	var ast []*tlast.Combinator
	if tl1 != "" {
		tl, err := tlast.ParseTLFile(tl1, "s.tl", tlast.LexerOptions{AllowBuiltin: false, AllowDirty: false})
		if err != nil {
			return err
		}
		ast = append(ast, tl.Combinators()...)
	}
	for i := range ast {
		ast[i].OriginalOrderIndex = i
	}
	var astTL2 tlast.TL2File
	if hasTL2 {
		t2, err := tlast.ParseTL2File(tl2, "s.tl2", tlast.LexerOptions{LexerLanguage: tlast.TL2})
		if err != nil {
			return err
		}
		astTL2.Combinators = append(astTL2.Combinators, t2.Combinators...)
	}
	opt := tlcodegen.Gen2Options{ErrorWriter: io.Discard, TypesWhiteList: "*", UseCheckLengthSanity: true,
		GenerateCommonMakefile: true, DeleteUnrelatedFiles: true, BasicTLNamespace: "basictl", IgnoreUnusedInFunctionsTypes: true,
		AddRPCTypes: true, InplaceSimpleStructs: true, AddFetchersEchoComments: true, FunctionsBodiesWhiteList: "*"}
	_, err := tlcodegen.GenerateCode(ast, astTL2, opt)
	return err
}

func verdict(err error) string {
	if err == nil {
		return "ok"
	}
	return "err"
}

func runCLI(bin string, args ...string) (string, string) {
	cmd := exec.Command(bin, args...)
	out, err := cmd.CombinedOutput()
	text := string(out)
	if strings.Contains(text, "panic:") || strings.Contains(text, "goroutine ") {
		return "panic", text
	}
	if err == nil {
		return "ok", text
	}
	if _, ok := err.(*exec.ExitError); ok {
		return "err", text
	}
	return "crash", text
}

// tool.tags <tl1 tags> <tl2 decls> <hex tl1 text> <hex tl2 text>
func opTags(args []string, cli bool) string {
	if len(args) != 4 {
		return "bad-op"
	}
	tl1, ok1 := unhexText(args[2])
	tl2, ok2 := unhexText(args[3])
	if !ok1 || !ok2 {
		return "bad-op"
	}
	hasTL2 := args[3] != "-"
	dir := caseDir()
	defer os.RemoveAll(dir)
	var paths []string
	if args[2] != "-" {
		// several TL1 files: parts separated by the marker line; written as s0.tl, s1.tl, … (walk order = this order)
		for i, part := range strings.Split(tl1, fileMarker) {
			p := filepath.Join(dir, fmt.Sprintf("s%d.tl", i))
			if err := os.WriteFile(p, []byte(part), 0644); err != nil {
				panic(err)
			}
			paths = append(paths, p)
		}
	}
	if hasTL2 {
		for i, part := range strings.Split(tl2, fileMarker) {
			p := filepath.Join(dir, fmt.Sprintf("s%d.tl2", i))
			if err := os.WriteFile(p, []byte(part), 0644); err != nil {
				panic(err)
			}
			paths = append(paths, p)
		}
	}
	var k, l string
	if cli {
		k, _ = runCLI(os.Getenv("VERIF_TL2GEN"), append([]string{"--language=lint"}, paths...)...)
		l, _ = runCLI(os.Getenv("VERIF_TLGEN"), paths...)
	} else {
		k = verdict(kernelLint(paths))
		l = verdict(legacyLint(strings.ReplaceAll(tl1, fileMarker, ""), strings.ReplaceAll(tl2, fileMarker, ""), hasTL2))
	}
	a := "perr"
	if t, ok := tl1Tags(strings.ReplaceAll(tl1, fileMarker, "")); ok {
		a = showTags(t)
	}
	m := "perr"
	if t, ok := tl2Magics(strings.ReplaceAll(tl2, fileMarker, "")); ok {
		m = showTags(t)
	}
	lk := "l"
	if hasTL2 {
		lk = "l2" // the legacy generator does not check TL2 magics; reported for the oracle only
	}
	return fmt.Sprintf("k:%s %s:%s a:%s m:%s", k, lk, l, a, m)
}
