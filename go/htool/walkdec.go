//go:build verif

package main

import (
	"os"
	"path/filepath"
	"strings"

	"github.com/VKCOM/tl/internal/puregen"
	"github.com/VKCOM/tl/internal/utils"
)

func init() {
	ops["tool.dec"] = opDec
	ops["tool.walk"] = opWalk
}

func commaList(s string) []string {
	if s == "-" {
		return nil
	}
	return strings.Split(s, ",")
}

// tool.dec <prefill 0|1> <names>  ->  ok <returned names>
func opDec(args []string) string {
	if len(args) != 2 {
		return "bad-op"
	}
	var d puregen.Deconflicter
	if args[0] == "1" {
		d.FillGolangIdentifies()
	}
	var res []string
	for _, n := range commaList(args[1]) {
		res = append(res, d.DeconflictName(n))
	}
	if len(res) == 0 {
		return "ok -"
	}
	return "ok " + strings.Join(res, ",")
}

// tool.walk <ext> <tree: f:path | l:path | d:path, …> <roots>  ->  ok <paths> | err
func opWalk(args []string) string {
	if len(args) != 3 {
		return "bad-op"
	}
	base := caseDir()
	defer os.RemoveAll(base)
	for _, e := range commaList(args[1]) {
		kv := strings.SplitN(e, ":", 2)
		if len(kv) != 2 {
			return "bad-op"
		}
		p := filepath.Join(base, filepath.FromSlash(kv[1]))
		switch kv[0] {
		case "f":
			if err := os.MkdirAll(filepath.Dir(p), 0755); err != nil {
				panic(err)
			}
			if err := os.WriteFile(p, []byte("x"), 0644); err != nil {
				panic(err)
			}
		case "l":
			if err := os.MkdirAll(filepath.Dir(p), 0755); err != nil {
				panic(err)
			}
			if err := os.Symlink("/dev/null", p); err != nil {
				panic(err)
			}
		case "d":
			if err := os.MkdirAll(p, 0755); err != nil {
				panic(err)
			}
		default:
			return "bad-op"
		}
	}
	var roots []string
	for _, r := range commaList(args[2]) {
		roots = append(roots, filepath.Join(base, filepath.FromSlash(r)))
	}
	res, err := utils.WalkDeterministic(args[0], roots...)
	if err != nil {
		return "err"
	}
	var out []string
	for _, p := range res {
		rel, err := filepath.Rel(base, p)
		if err != nil {
			return "err"
		}
		out = append(out, filepath.ToSlash(rel))
	}
	if len(out) == 0 {
		return "ok -"
	}
	return "ok " + strings.Join(out, ",")
}
