//go:build verif

// Harness for the `tool` family (C14, C15, C16, C24): runs the generator tooling of the repository on the same
// case lines as the Lean model.  One result line per input line on the *original* stdout; the generator's own
// chatter (fmt.Printf, log) is sent to /dev/null.
package main

import (
	"bufio"
	"encoding/hex"
	"fmt"
	"io"
	"log"
	"os"
	"path/filepath"
	"strings"
	"syscall"
)

var workRoot string // scratch directory for this process
var caseSeq int

func unhexText(s string) (string, bool) {
	if s == "-" {
		return "", true
	}
	b, err := hex.DecodeString(s)
	return string(b), err == nil
}

func caseDir() string {
	caseSeq++
	d := filepath.Join(workRoot, fmt.Sprintf("c%d", caseSeq))
	_ = os.RemoveAll(d)
	if err := os.MkdirAll(d, 0755); err != nil {
		panic(err)
	}
	return d
}

type opFunc func(args []string) string

var ops = map[string]opFunc{}

func handle(line string) (res string) {
	defer func() {
		if r := recover(); r != nil {
			if os.Getenv("VERIF_DEBUG") != "" {
				fmt.Fprintf(os.Stderr, "panic: %v\n", r)
			}
			res = "panic"
		}
	}()
	f := strings.Fields(line)
	if len(f) == 0 {
		return "bad-op"
	}
	fn, ok := ops[f[0]]
	if !ok {
		return "bad-op"
	}
	return fn(f[1:])
}

func main() {
	// keep the real stdout for results, silence everything the repository code prints
	fd, err := syscall.Dup(1)
	if err != nil {
		panic(err)
	}
	realOut := os.NewFile(uintptr(fd), "results")
	devnull, err := os.OpenFile(os.DevNull, os.O_WRONLY, 0)
	if err != nil {
		panic(err)
	}
	_ = syscall.Dup3(int(devnull.Fd()), 1, 0)
	os.Stdout = devnull
	log.SetOutput(io.Discard)

	base := os.Getenv("VERIF_TMP")
	if base == "" {
		base = os.TempDir()
	}
	_ = os.MkdirAll(base, 0755)
	workRoot, err = os.MkdirTemp(base, "htool-")
	if err != nil {
		panic(err)
	}
	defer os.RemoveAll(workRoot)

	in := bufio.NewReaderSize(os.Stdin, 1<<20)
	out := bufio.NewWriterSize(realOut, 1<<16)
	for {
		line, err := in.ReadString('\n')
		line = strings.TrimRight(line, "\r\n")
		if line != "" {
			fmt.Fprintln(out, handle(line))
			out.Flush()
		}
		if err != nil {
			break
		}
	}
	out.Flush()
	os.RemoveAll(workRoot)
}
