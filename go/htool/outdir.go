//go:build verif

package main

import (
	"crypto/sha1"
	"encoding/hex"
	"fmt"
	"io"
	"os"
	"path/filepath"
	"regexp"
	"sort"
	"strings"
	"time"

	"github.com/VKCOM/tl/internal/puregen"
	"github.com/VKCOM/tl/internal/tlcodegen"
)

func init() {
	ops["tool.outdir"] = func(a []string) string { return opOutdir(a, "pure") }
	ops["tool.outcli"] = func(a []string) string { return opOutdir(a, "purecli") }
	ops["tool.loutdir"] = func(a []string) string { return opOutdir(a, "legacy") }
	ops["tool.loutcli"] = func(a []string) string { return opOutdir(a, "legacycli") }
	ops["tool.genlist"] = func(a []string) string { return opGenList(a, false) }
	ops["tool.lgenlist"] = func(a []string) string { return opGenList(a, true) }
}

var oldTime = time.Date(2001, 2, 3, 4, 5, 6, 0, time.UTC)

func extClass(key string) int {
	switch {
	case strings.HasSuffix(key, ".go"):
		return 1
	case strings.HasSuffix(key, ".h") || strings.HasSuffix(key, ".cpp"):
		return 2
	}
	return 0
}

// content identifiers -> file contents (see fmtIds in the Lean model)
func contentOf(key string, id string) string {
	switch extClass(key) {
	case 1:
		if strings.HasPrefix(id, "u") { // unformatted source whose gofmt is contentOf(key, "f"+rest)
			return "package   p\n\nconst  X = \"f" + id[1:] + "\"\n"
		}
		if strings.HasPrefix(id, "b") { // does not parse: written as is
			return "package {{{ " + id + "\n"
		}
		return "package p\n\nconst X = \"" + id + "\"\n"
	case 2:
		if strings.HasPrefix(id, "t") {
			return "x\ts" + id[1:]
		}
		if strings.HasPrefix(id, "s") {
			return "x  s" + id[1:]
		}
		return "x " + id
	}
	return id
}

var reGoID = regexp.MustCompile(`^package p\n\nconst X = "([a-z0-9]+)"\n$`)
var reGoBroken = regexp.MustCompile(`^package \{\{\{ ([a-z0-9]+)\n$`)
var reGoUnf = regexp.MustCompile(`^package   p\n\nconst  X = "f([a-z0-9]*)"\n$`)
var rePlain = regexp.MustCompile(`^[a-z][a-z0-9]*$`)

func idOf(key string, content string, cli bool) string {
	if !cli && key == "tlgen2_version.txt" && strings.HasPrefix(content, "tlgen version:") {
		return "mk" // marker written by the legacy WriteToDir itself
	}
	if cli {
		if rePlain.MatchString(content) && len(content) < 12 && strings.HasPrefix(content, "z") {
			return content
		}
		h := sha1.Sum([]byte(content))
		return hex.EncodeToString(h[:4])
	}
	switch extClass(key) {
	case 1:
		if m := reGoID.FindStringSubmatch(content); m != nil {
			return m[1]
		}
		if m := reGoBroken.FindStringSubmatch(content); m != nil {
			return m[1]
		}
		if m := reGoUnf.FindStringSubmatch(content); m != nil {
			return "u" + m[1]
		}
	case 2:
		if strings.HasPrefix(content, "x\ts") {
			return "t" + content[3:]
		}
		if strings.HasPrefix(content, "x  s") {
			return "s" + content[4:]
		}
		if strings.HasPrefix(content, "x ") {
			return content[2:]
		}
	default:
		if rePlain.MatchString(content) {
			return content
		}
	}
	h := sha1.Sum([]byte(content))
	return "?" + hex.EncodeToString(h[:4])
}

type tree struct {
	files map[string]string    // key (relative to outdir) -> content
	mtime map[string]time.Time // key -> mtime
	dirs  []string             // directories below outdir
}

func readTree(root, outdir string) tree {
	t := tree{files: map[string]string{}, mtime: map[string]time.Time{}}
	err := filepath.Walk(root, func(path string, info os.FileInfo, err error) error {
		if err != nil {
			return err
		}
		rel, err := filepath.Rel(outdir, path)
		if err != nil {
			return err
		}
		rel = filepath.ToSlash(rel)
		if info.IsDir() {
			if rel != "." && !strings.HasPrefix(rel, "..") {
				t.dirs = append(t.dirs, rel)
			}
			return nil
		}
		b, err := os.ReadFile(path)
		if err != nil {
			return err
		}
		t.files[rel] = string(b)
		t.mtime[rel] = info.ModTime()
		return nil
	})
	if err != nil {
		panic(err)
	}
	sort.Strings(t.dirs)
	return t
}

func resetTimes(root string) {
	_ = filepath.Walk(root, func(path string, info os.FileInfo, err error) error {
		if err == nil && !info.IsDir() {
			if err := os.Chtimes(path, oldTime, oldTime); err != nil {
				panic(err)
			}
		}
		return nil
	})
}

func showList(l []string) string {
	if len(l) == 0 {
		return "-"
	}
	sort.Strings(l)
	return strings.Join(l, ",")
}

func parseCode(s string) ([][2]string, bool) {
	var res [][2]string
	if s == "-" {
		return res, true
	}
	for _, w := range strings.Split(s, ",") {
		kv := strings.Split(w, "=")
		if len(kv) != 2 || kv[0] == "" || kv[1] == "" {
			return nil, false
		}
		res = append(res, [2]string{kv[0], kv[1]})
	}
	return res, true
}

// option sets of real tl2gen runs into <sandbox>/o1/o2/out
var cliOptSets = [][]string{
	{"--pkgPath=verif.local/h/gen/tl"},                                   // basictl in another repository: not written
	{"--pkgPath=github.com/VKCOM/tl/o1/o2/out/tl"},                       // basictl updated in ../../../pkg/basictl
	{"--pkgPath=verif.local/h/gen/tl", "--basicPkgPath="},                // basictl generated inside the output directory
	{"--pkgPath=verif.local/h/gen/tl", "--split-internal"},               // many packages
	{"--pkgPath=github.com/VKCOM/tl/o1/o2/out/tl", "--generateRandomCode"}, // other contents, basictl outside
}

func writeSchemas(dir string, text string) []string {
	if err := os.MkdirAll(dir, 0755); err != nil {
		panic(err)
	}
	var paths []string
	for i, part := range strings.Split(text, fileMarker) {
		ext := ".tl"
		if strings.HasPrefix(part, "//tl2\n") {
			ext = ".tl2"
		}
		p := filepath.Join(dir, fmt.Sprintf("s%d%s", i, ext))
		if err := os.WriteFile(p, []byte(part), 0644); err != nil {
			panic(err)
		}
		paths = append(paths, p)
	}
	return paths
}

func runTl2genGo(outdir string, optid int, schemaPaths []string) string {
	if optid < 0 || optid >= len(cliOptSets) {
		return "bad-op"
	}
	args := []string{"--language=go", "--outdir=" + outdir}
	args = append(args, cliOptSets[optid]...)
	args = append(args, schemaPaths...)
	v, _ := runCLI(os.Getenv("VERIF_TL2GEN"), args...)
	return v
}

// option sets of real legacy `tlgen -language=cpp` runs
var legacyOptSets = [][]string{
	{"-language=cpp"},
	{"-language=cpp", "-cpp-generate-meta", "-cpp-generate-factory"},
	{"-language=cpp", "-cpp-namespace=vk::tl", "-cpp-generate-common-makefile=false"},
}

func runTlgenCpp(outdir string, optid int, schemaPaths []string) string {
	if optid < 0 || optid >= len(legacyOptSets) {
		return "bad-op"
	}
	args := append([]string{"-outdir=" + outdir}, legacyOptSets[optid]...)
	args = append(args, schemaPaths...)
	v, _ := runCLI(os.Getenv("VERIF_TLGEN"), args...)
	return v
}

func stepResult(verdict string, before, after tree, cli bool) string {
	var w, x, tl []string
	for k := range after.files {
		if !after.mtime[k].Equal(oldTime) {
			w = append(w, k)
		}
		tl = append(tl, k+"="+idOf(k, after.files[k], cli))
	}
	for k := range before.files {
		if _, ok := after.files[k]; !ok {
			x = append(x, k)
		}
	}
	o := verdict
	return fmt.Sprintf("%s;w=%s;x=%s;T=%s;D=%s", o, showList(w), showList(x), showList(tl), showList(after.dirs))
}

// tool.outdir <marker> <steps>   steps: g:<k=id,…> | p:<k=id> | d:<dir> | r:<k>, separated by ';'
// tool.outcli <marker> <steps>   same, but g:<claimed k=sha,…>:<optid>:<hex schema> runs the real tl2gen binary
func opOutdir(args []string, mode string) string {
	if len(args) != 2 {
		return "bad-op"
	}
	cli := strings.HasSuffix(mode, "cli")
	legacy := strings.HasPrefix(mode, "legacy")
	marker := args[0] // for the legacy writer: the language ("cpp" | "php"); its marker file name is fixed in the source
	cdir := caseDir()
	defer os.RemoveAll(cdir)
	root := filepath.Join(cdir, "sb")
	outdir := filepath.Join(root, "o1", "o2", "out")
	if err := os.MkdirAll(filepath.Dir(outdir), 0755); err != nil {
		panic(err)
	}
	abs := func(key string) string { return filepath.Join(outdir, filepath.FromSlash(key)) }
	var results []string
	for si, st := range strings.Split(args[1], ";") {
		f := strings.Split(st, ":")
		switch {
		case f[0] == "g" && len(f) >= 2:
			code, ok := parseCode(f[1])
			if !ok {
				return "bad-op"
			}
			// directories for keys outside the output directory must exist (the generator does not create them)
			for _, kv := range code {
				if strings.HasPrefix(kv[0], "..") {
					if err := os.MkdirAll(filepath.Dir(abs(kv[0])), 0755); err != nil {
						panic(err)
					}
				}
			}
			resetTimes(root)
			before := readTree(root, outdir)
			okv := "ref"
			if cli {
				if len(f) != 4 {
					return "bad-op"
				}
				var optid int
				if _, err := fmt.Sscanf(f[2], "%d", &optid); err != nil {
					return "bad-op"
				}
				text, ok := unhexText(f[3])
				if !ok {
					return "bad-op"
				}
				paths := writeSchemas(filepath.Join(cdir, fmt.Sprintf("in%d", si)), text)
				var v string
				if legacy {
					v = runTlgenCpp(outdir, optid, paths)
				} else {
					v = runTl2genGo(outdir, optid, paths)
				}
				if v == "panic" || v == "crash" || v == "bad-op" {
					return v
				}
				if v == "ok" {
					okv = "ok"
				}
			} else if legacy {
				cm := map[string]string{}
				for _, kv := range code {
					cm[kv[0]] = contentOf(kv[0], kv[1])
				}
				err := tlcodegen.VerifNewGen(marker, cm).WriteToDir(outdir)
				switch {
				case err == nil:
					okv = "ok"
				case strings.Contains(err.Error(), "generated twice"):
					okv = "dup"
				}
			} else {
				od := puregen.OutDir{Code: map[string]string{}}
				for _, kv := range code {
					od.Code[kv[0]] = contentOf(kv[0], kv[1])
				}
				opts := puregen.Options{Outdir: outdir, ErrorWriter: io.Discard}
				if od.Write(&opts, marker) == nil {
					okv = "ok"
				}
			}
			after := readTree(root, outdir)
			results = append(results, stepResult(okv, before, after, cli))
		case f[0] == "p" && len(f) == 2:
			kv, ok := parseCode(f[1])
			if !ok || len(kv) != 1 {
				return "bad-op"
			}
			p := abs(kv[0][0])
			if err := os.MkdirAll(filepath.Dir(p), 0755); err != nil {
				panic(err)
			}
			content := kv[0][1]
			if !cli {
				content = contentOf(kv[0][0], kv[0][1])
			}
			if err := os.WriteFile(p, []byte(content), 0644); err != nil {
				panic(err)
			}
		case f[0] == "d" && len(f) == 2 && f[1] != "":
			if err := os.MkdirAll(abs(f[1]), 0755); err != nil {
				panic(err)
			}
		case f[0] == "r" && len(f) == 2 && f[1] != "":
			_ = os.Remove(abs(f[1]))
		default:
			return "bad-op"
		}
	}
	if len(results) == 0 {
		return "none"
	}
	nok := 0
	for _, r := range results {
		if strings.HasPrefix(r, "ok;") {
			nok++
		}
	}
	return fmt.Sprintf("r=%d.%d %s", nok, len(results)-nok, strings.Join(results, "|"))
}

// helper (not tied): file list of one real generation into a fresh directory
// tool.genlist <optid> <hex schema>  ->  ok <k=sha,…> | err
func opGenList(args []string, legacy bool) string {
	if len(args) != 2 {
		return "bad-op"
	}
	var optid int
	if _, err := fmt.Sscanf(args[0], "%d", &optid); err != nil {
		return "bad-op"
	}
	text, ok := unhexText(args[1])
	if !ok {
		return "bad-op"
	}
	cdir := caseDir()
	defer os.RemoveAll(cdir)
	root := filepath.Join(cdir, "sb")
	outdir := filepath.Join(root, "o1", "o2", "out")
	if err := os.MkdirAll(filepath.Join(root, "pkg", "basictl"), 0755); err != nil {
		panic(err)
	}
	if err := os.MkdirAll(filepath.Dir(outdir), 0755); err != nil {
		panic(err)
	}
	paths := writeSchemas(filepath.Join(cdir, "in"), text)
	var v string
	if legacy {
		v = runTlgenCpp(outdir, optid, paths)
	} else {
		v = runTl2genGo(outdir, optid, paths)
	}
	if v != "ok" {
		return v
	}
	t := readTree(root, outdir)
	var tl []string
	for k, c := range t.files {
		tl = append(tl, k+"="+idOf(k, c, true))
	}
	return "ok " + showList(tl)
}
