//go:build verif

package main

import (
	"crypto/sha1"
	"encoding/hex"
	"flag"
	"fmt"
	"io"
	"os"
	"os/exec"
	"path/filepath"
	"regexp"
	"sort"
	"strings"
	"time"

	"github.com/VKCOM/tl/internal/pure"
	"github.com/VKCOM/tl/internal/puregen"
	"github.com/VKCOM/tl/internal/puregen/gengo"
)

func init() {
	ops["tool.gen"] = opGen
	ops["tool.genbuild"] = opGenBuild
	ops["tool.det"] = opDet
	ops["tool.detrep"] = opDetRep
}

// option sets of the Go generator explored by C14 / C15 (pkgPath is added per case)
var goOptSets = [][]string{
	{},
	{"--split-internal"},
	{"--tl2WhiteList=*"},
	{"--generateByteVersions=*"},
	{"--generateRandomCode"},
	{"--split-internal", "--tl2WhiteList=*", "--generateByteVersions=*", "--generateRandomCode"},
	{"--generateRPCCode"},
	{"--tl2WhiteList=aa.,svc.", "--generateByteVersions=aa.,bb."},
	{"--checkLengthSanity=false", "--generateRandomCode"},
	{"--split-internal", "--generateRPCCode", "--generateRandomCode", "--tl2WhiteList=*"},
}

func scratchDir() string {
	s := os.Getenv("VERIF_SCRATCH")
	if s == "" {
		panic("VERIF_SCRATCH not set")
	}
	return s
}

func hasMessage(out string) bool {
	for _, l := range strings.Split(out, "\n") {
		l = strings.TrimSpace(l)
		if l == "" || strings.HasPrefix(l, "tl2gen version") || strings.HasPrefix(l, "tl2pure: compiling") ||
			strings.HasPrefix(l, "TL Generation Failed") || strings.HasPrefix(l, "TL Linter Failed") {
			continue
		}
		return true
	}
	return false
}

const keepContent = "precious user data\n"
const oldMarker = "// previous generation marker\n"

// generate into <scratch>/<sub>/<id>; returns verdict and the generator's output
func genInto(sub string, id string, optset int, text string) (string, string) {
	if optset < 0 || optset >= len(goOptSets) {
		return "bad-op", ""
	}
	sc := scratchDir()
	indir := filepath.Join(sc, "in", sub, id)
	outdir := filepath.Join(sc, sub, id)
	_ = os.RemoveAll(indir)
	_ = os.RemoveAll(outdir)
	paths := writeSchemas(indir, text)
	// a previous generation is simulated by its marker plus a file that must survive a rejected schema
	if err := os.MkdirAll(filepath.Join(outdir, "meta"), 0755); err != nil {
		panic(err)
	}
	if err := os.WriteFile(filepath.Join(outdir, "meta", "meta.go"), []byte(oldMarker), 0644); err != nil {
		panic(err)
	}
	if err := os.WriteFile(filepath.Join(outdir, "keep.txt"), []byte(keepContent), 0644); err != nil {
		panic(err)
	}
	args := []string{"--language=go", "--outdir=" + outdir, "--pkgPath=verif.local/h/" + sub + "/" + id + "/tl"}
	args = append(args, goOptSets[optset]...)
	args = append(args, paths...)
	v, out := runCLI(os.Getenv("VERIF_TL2GEN"), args...)
	switch v {
	case "ok":
		return "ok", out
	case "err":
		// rejected: must say why, and must not have touched the output directory
		res := "err"
		if !hasMessage(out) {
			res += " nomsg"
		}
		var files []string
		_ = filepath.Walk(outdir, func(p string, info os.FileInfo, err error) error {
			if err == nil && !info.IsDir() {
				rel, _ := filepath.Rel(outdir, p)
				files = append(files, filepath.ToSlash(rel))
			}
			return nil
		})
		sort.Strings(files)
		k, _ := os.ReadFile(filepath.Join(outdir, "keep.txt"))
		m, _ := os.ReadFile(filepath.Join(outdir, "meta", "meta.go"))
		if strings.Join(files, ",") != "keep.txt,meta/meta.go" || string(k) != keepContent || string(m) != oldMarker {
			res += " dirty"
		}
		_ = os.RemoveAll(outdir) // nothing to build
		return res, out
	}
	_ = os.RemoveAll(outdir)
	return v, out
}

// tool.gen <id> <optset> <hex schema>: phase 1 of the bulk build (go build of all outputs runs once, afterwards)
func opGen(args []string) string {
	if len(args) != 3 {
		return "bad-op"
	}
	var optset int
	if _, err := fmt.Sscanf(args[1], "%d", &optset); err != nil {
		return "bad-op"
	}
	text, ok := unhexText(args[2])
	if !ok {
		return "bad-op"
	}
	v, _ := genInto("gen", args[0], optset, text)
	return v
}

func goBuild(dir string, pattern string) (bool, string) {
	cmd := exec.Command("go", "build", pattern)
	cmd.Dir = dir
	cmd.Env = append(os.Environ(), "GOFLAGS=-mod=mod", "GOPROXY=off")
	out, err := cmd.CombinedOutput()
	return err == nil, string(out)
}

// tool.genbuild <optset> <hex schema>: self-contained case (generation + go build of the output)
func opGenBuild(args []string) string {
	if len(args) != 2 {
		return "bad-op"
	}
	var optset int
	if _, err := fmt.Sscanf(args[0], "%d", &optset); err != nil {
		return "bad-op"
	}
	text, ok := unhexText(args[1])
	if !ok {
		return "bad-op"
	}
	h := sha1.Sum([]byte(args[0] + " " + args[1]))
	id := "o" + hex.EncodeToString(h[:6])
	v, _ := genInto("one", id, optset, text)
	if v != "ok" {
		return v
	}
	built, out := goBuild(scratchDir(), "./one/"+id+"/...")
	defer os.RemoveAll(filepath.Join(scratchDir(), "one", id))
	if !built {
		if os.Getenv("VERIF_DEBUG") != "" {
			fmt.Fprintln(os.Stderr, out)
		}
		return "ok buildfail"
	}
	return "ok built"
}

// ---------------------------------------------------------------- determinism (C15)

var tloDateRe = regexp.MustCompile(`"date": [0-9]+,`)

func hashTree(root string) (string, int) {
	var items []string
	_ = filepath.Walk(root, func(p string, info os.FileInfo, err error) error {
		if err != nil || info.IsDir() {
			return nil
		}
		b, _ := os.ReadFile(p)
		rel, _ := filepath.Rel(root, p)
		h := sha1.Sum(b)
		items = append(items, filepath.ToSlash(rel)+"="+hex.EncodeToString(h[:]))
		return nil
	})
	sort.Strings(items)
	h := sha1.Sum([]byte(strings.Join(items, "\n")))
	return hex.EncodeToString(h[:6]), len(items)
}

func runEnv(bin string, env []string, args ...string) (string, string) {
	cmd := exec.Command(bin, args...)
	cmd.Env = append(os.Environ(), env...)
	out, err := cmd.CombinedOutput()
	text := string(out)
	if strings.Contains(text, "panic:") || strings.Contains(text, "goroutine ") {
		return "panic", text
	}
	if err == nil {
		return "ok", text
	}
	if _, ok := err.(*exec.ExitError); ok {
		return "err", text
	}
	return "crash", text
}

// tool.det <lang> <optset> <layout> <hex schema>
// Runs the generator several times (GOMAXPROCS 1 / 16 / 2 / 16, input paths in different orders, given as directories or
// as single files, optionally with duplicated roots) and compares verdicts and output trees byte for byte.
func opDet(args []string) string {
	if len(args) != 4 {
		return "bad-op"
	}
	lang := args[0]
	var optset int
	if _, err := fmt.Sscanf(args[1], "%d", &optset); err != nil || optset < 0 || optset >= len(goOptSets) {
		return "bad-op"
	}
	layout := args[2] // "dirs" | "files" | "dup"
	text, ok := unhexText(args[3])
	if !ok {
		return "bad-op"
	}
	cdir := caseDir()
	defer os.RemoveAll(cdir)
	// spread the parts over two directories and the top level
	var files []string
	dirsSeen := map[string]bool{}
	var dirs []string
	for i, part := range strings.Split(text, fileMarker) {
		ext := ".tl"
		if strings.HasPrefix(part, "//tl2\n") {
			ext = ".tl2"
		}
		sub := []string{"d0", "d1", "d0/deep"}[i%3]
		d := filepath.Join(cdir, "in", sub)
		if err := os.MkdirAll(d, 0755); err != nil {
			panic(err)
		}
		p := filepath.Join(d, fmt.Sprintf("s%d%s", i, ext))
		if err := os.WriteFile(p, []byte(part), 0644); err != nil {
			panic(err)
		}
		files = append(files, p)
		top := filepath.Join(cdir, "in", strings.Split(sub, "/")[0])
		if !dirsSeen[top] {
			dirsSeen[top] = true
			dirs = append(dirs, top)
		}
	}
	rev := func(l []string) []string {
		r := append([]string{}, l...)
		for i, j := 0, len(r)-1; i < j; i, j = i+1, j-1 {
			r[i], r[j] = r[j], r[i]
		}
		return r
	}
	rot := func(l []string) []string {
		if len(l) < 2 {
			return l
		}
		return append(append([]string{}, l[1:]...), l[0])
	}
	var variants [][]string
	switch layout {
	case "dirs":
		variants = [][]string{dirs, rev(dirs), {filepath.Join(cdir, "in")}, rot(dirs)}
	case "files":
		variants = [][]string{files, rev(files), rot(files), rev(rot(files))}
	case "dup": // every variant lists the same multiset of paths (first root twice), in different orders
		base := append(append([]string{}, dirs...), dirs[0])
		variants = [][]string{base, rev(base), rot(base), rot(rot(base))}
	default:
		return "bad-op"
	}
	procs := []string{"1", "16", "2", "16"}
	var first string
	var dates []string
	for vi, roots := range variants {
		out := filepath.Join(cdir, fmt.Sprintf("out%d", vi))
		var v string
		env := []string{"GOMAXPROCS=" + procs[vi]}
		switch lang {
		case "go":
			a := []string{"--language=go", "--outdir=" + out, "--pkgPath=verif.local/h/gen/tl"}
			a = append(a, goOptSets[optset]...)
			v, _ = runEnv(os.Getenv("VERIF_TL2GEN"), env, append(a, roots...)...)
		case "php":
			a := []string{"--language=php", "--outdir=" + out, "--php-use-builtin-data-providers", "--php-serialization-bodies", "--php-generate-meta"}
			v, _ = runEnv(os.Getenv("VERIF_TL2GEN"), env, append(a, roots...)...)
		case "phplite":
			a := []string{"--language=php", "--outdir=" + out, "--php-use-builtin-data-providers"}
			v, _ = runEnv(os.Getenv("VERIF_TL2GEN"), env, append(a, roots...)...)
		case "tlo", "canonical", "tljson.html":
			if err := os.MkdirAll(out, 0755); err != nil {
				panic(err)
			}
			a := []string{"--language=" + lang, "--outfile=" + filepath.Join(out, "out.bin"), "--schemaTimestamp=1700000000", "--schemaCommit=abc", "--schemaURL=http://x"}
			v, _ = runEnv(os.Getenv("VERIF_TL2GEN"), env, append(a, roots...)...)
		case "tlo-default":
			// default options: --schemaTimestamp unset (0). tlast/tlgen_tlo.go then writes the wall clock into the `date` word of
			// tls.schema_v4 (bytes 8..11), so the runs are spaced by more than a second and compared with that word masked;
			// the answer says whether the date word was the only difference
			if err := os.MkdirAll(out, 0755); err != nil {
				panic(err)
			}
			if vi == 1 {
				time.Sleep(1100 * time.Millisecond)
			}
			a := []string{"--language=tlo", "--outfile=" + filepath.Join(out, "out.bin")}
			v, _ = runEnv(os.Getenv("VERIF_TL2GEN"), env, append(a, roots...)...)
			if v == "ok" {
				data, err := os.ReadFile(filepath.Join(out, "out.bin"))
				if err != nil || len(data) < 12 {
					return "bad-tlo"
				}
				dates = append(dates, hex.EncodeToString(data[8:12]))
				copy(data[8:12], []byte{0, 0, 0, 0})
				if err := os.WriteFile(filepath.Join(out, "out.bin"), data, 0644); err != nil {
					panic(err)
				}
				// the JSON twin written next to it carries the same word as `"date": N`
				if js, err := os.ReadFile(filepath.Join(out, "out.bin.json")); err == nil {
					js = tloDateRe.ReplaceAll(js, []byte(`"date": 0,`))
					if err := os.WriteFile(filepath.Join(out, "out.bin.json"), js, 0644); err != nil {
						panic(err)
					}
				}
			}
		case "cpp":
			a := []string{"-language=cpp", "-outdir=" + out, "-cpp-generate-meta", "-cpp-generate-factory"}
			v, _ = runEnv(os.Getenv("VERIF_TLGEN"), env, append(a, roots...)...)
		case "legacytlo":
			if err := os.MkdirAll(out, 0755); err != nil {
				panic(err)
			}
			a := []string{"-tloPath=" + filepath.Join(out, "out.tlo"), "-canonicalFormPath=" + filepath.Join(out, "canon.tl"), "-schemaTimestamp=1700000000"}
			v, _ = runEnv(os.Getenv("VERIF_TLGEN"), env, append(a, roots...)...)
		default:
			return "bad-op"
		}
		if v == "crash" {
			return v
		}
		sig := v // "panic" is compared like a verdict: C15 is about equal behaviour of repeated runs
		if v == "ok" {
			h, n := hashTree(out)
			sig = fmt.Sprintf("ok %d %s", n, h)
		}
		if vi == 0 {
			first = sig
		} else if sig != first {
			return fmt.Sprintf("diff variant%d %s vs %s", vi, strings.ReplaceAll(sig, " ", "_"), strings.ReplaceAll(first, " ", "_"))
		}
	}
	for _, d := range dates {
		if d != dates[0] {
			return "date-differs " + first
		}
	}
	return first
}

// ---------------------------------------------------------------- repeated generation (C15, --split-internal cycles)

// the Go generator of cmd/tl2gen (runMain with --language=go), in-process
func genGoInProcess(args []string, roots []string) error {
	opt := puregen.Options{ErrorWriter: io.Discard}
	fs := flag.NewFlagSet("tl2gen", flag.ContinueOnError)
	fs.SetOutput(io.Discard)
	opt.Bind(fs, "")
	if err := fs.Parse(args); err != nil {
		return err
	}
	if err := opt.Validate(); err != nil {
		return err
	}
	kernel := pure.NewKernel(&opt.Kernel)
	if err := kernel.AddFilesFromPaths(roots); err != nil {
		return err
	}
	return gengo.Generate(kernel, &opt)
}

// tool.detrep <optset> <hex schema>
// Go generator only: 8 runs in separate processes (GOMAXPROCS 1/2/16 cycling, input files in rotating order) and 8 runs
// in-process; within each group the output trees (file names + content hashes) must be identical.  A per-run divergence
// of probability 1/2 escapes one group with probability 2^-7.
func opDetRep(args []string) string {
	if len(args) != 2 {
		return "bad-op"
	}
	var optset int
	if _, err := fmt.Sscanf(args[0], "%d", &optset); err != nil || optset < 0 || optset >= len(goOptSets) {
		return "bad-op"
	}
	text, ok := unhexText(args[1])
	if !ok {
		return "bad-op"
	}
	cdir := caseDir()
	defer os.RemoveAll(cdir)
	files := writeSchemas(filepath.Join(cdir, "in"), text)
	procs := []string{"1", "16", "2", "16", "4", "1", "8", "16"}
	var first [2]string
	for group := 0; group < 2; group++ {
		for run := 0; run < 8; run++ {
			roots := append(append([]string{}, files[run%len(files):]...), files[:run%len(files)]...)
			out := filepath.Join(cdir, fmt.Sprintf("out%d_%d", group, run))
			a := []string{"--language=go", "--outdir=" + out, "--pkgPath=verif.local/h/gen/tl"}
			a = append(a, goOptSets[optset]...)
			var v string
			if group == 0 {
				v, _ = runEnv(os.Getenv("VERIF_TL2GEN"), []string{"GOMAXPROCS=" + procs[run]}, append(a, roots...)...)
			} else {
				func() {
					defer func() {
						if r := recover(); r != nil {
							v = "panic"
						}
					}()
					if err := genGoInProcess(a, roots); err != nil {
						v = "err"
					} else {
						v = "ok"
					}
				}()
			}
			if v == "crash" {
				return v
			}
			sig := v
			if v == "ok" {
				h, n := hashTree(out)
				sig = fmt.Sprintf("ok %d %s", n, h)
			}
			_ = os.RemoveAll(out)
			if run == 0 {
				first[group] = sig
			} else if sig != first[group] {
				return fmt.Sprintf("diff group%d run%d %s vs %s", group, run, strings.ReplaceAll(sig, " ", "_"), strings.ReplaceAll(first[group], " ", "_"))
			}
		}
	}
	if strings.SplitN(first[0], " ", 2)[0] != strings.SplitN(first[1], " ", 2)[0] {
		return "diff verdict cli=" + strings.ReplaceAll(first[0], " ", "_") + " inproc=" + strings.ReplaceAll(first[1], " ", "_")
	}
	return first[0]
}
