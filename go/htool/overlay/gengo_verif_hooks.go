//go:build verif

package gengo

import "github.com/VKCOM/tl/internal/puregen"

// VerifPrepareOptions exposes (*genGo).prepareOptions: where the runtime library is written relative to the output directory.
func VerifPrepareOptions(opts *puregen.Options) (rel string, globalPackage string, err error) {
	gen := genGo{options: opts}
	err = gen.prepareOptions()
	return gen.BasicPackageRelativePath, gen.GlobalPackageName, err
}
