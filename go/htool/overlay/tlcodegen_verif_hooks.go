//go:build verif

package tlcodegen

// VerifNewGen builds a legacy generator object that only carries a code map, so that (*Gen2).WriteToDir can be driven
// with abstract code maps.
func VerifNewGen(language string, code map[string]string) *Gen2 {
	return &Gen2{options: &Gen2Options{Language: language}, Code: code}
}
