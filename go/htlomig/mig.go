//go:build verif

package main

import (
	"bytes"
	"fmt"
	"os"
	"path/filepath"
	"sort"
	"strconv"
	"strings"

	"github.com/VKCOM/tl/internal/pure"
	"github.com/VKCOM/tl/internal/pure/onthefly"
	"github.com/VKCOM/tl/internal/tlast"
)

// ---------------------------------------------------------------- descriptor export (TL2/JSON view of a type instance)

type descBuilder struct {
	idx   map[pure.TypeInstance]int
	nodes []string
}

func (b *descBuilder) visit(ins pure.TypeInstance) int {
	if i, ok := b.idx[ins]; ok {
		return i
	}
	i := len(b.nodes)
	b.idx[ins] = i
	b.nodes = append(b.nodes, "")
	var s string
	switch in := ins.(type) {
	case *pure.TypeInstancePrimitive:
		s = node("p", in.CanonicalName())
	case *pure.TypeInstanceStruct:
		fs := make([]string, 0, len(in.Fields()))
		for _, f := range in.Fields() {
			fs = append(fs, node(atom(f.Name()), b01(onthefly.VerifFieldOptional(f)), b01(f.IsBit()), strconv.Itoa(b.visit(f.TypeInstance()))))
		}
		s = node("s", b01(in.IsAlias()), b01(in.IsTypedef()), b01(in.IsUnionElement()), strconv.Itoa(in.UnionIndex()), node(fs...))
	case *pure.TypeInstanceUnion:
		vs := make([]string, 0, len(in.VariantTypes()))
		for i, v := range in.VariantTypes() {
			vs = append(vs, node(atom(in.VariantNames()[i]), strconv.Itoa(b.visit(v))))
		}
		s = node("u", node(vs...))
	case *pure.TypeInstanceArray:
		s = node("a", b01(in.IsTuple()), b01(in.DynamicSize()), u(in.Count()), strconv.Itoa(b.visit(in.Field().TypeInstance())), b01(in.Field().IsBit()))
	case *pure.TypeInstanceDict:
		s = node("d", strconv.Itoa(b.visit(in.FieldType())))
	default:
		s = node("x")
	}
	b.nodes[i] = s
	return i
}

func exportDesc(root pure.TypeInstance) string {
	b := &descBuilder{idx: map[pure.TypeInstance]int{}}
	r := b.visit(root)
	return node("D", strconv.Itoa(r), node(b.nodes...))
}

// ---------------------------------------------------------------- migration cases (cached per process)

type migCase struct {
	nsSplit bool  // some non-empty namespace is declared both in the remaining .tl and in the produced .tl2
	status string // ok | err compile | err rej | nocompile
	k1, k2 *pure.Kernel
	tl1    []byte // rewritten .tl
	tl2    []byte // produced .tl2
	roots  []string
}

var migCache = map[string]*migCase{}

func compileKernel(files []string, tl2wl string) (*pure.Kernel, error) {
	// InstantiateConstants as the Go generator sets it: `tuple int 3` / `[3]int32` are fixed-size instances
	opts := pure.OptionsKernel{TypesWhiteList: "*", TL2WhiteList: tl2wl, ErrorWriter: &bytes.Buffer{}, InstantiateConstants: true}
	k := pure.NewKernel(&opts)
	for _, f := range files {
		var err error
		if strings.HasSuffix(f, ".tl2") {
			err = k.AddFileTL2(f)
		} else {
			err = k.AddFileTL1(f)
		}
		if err != nil {
			return nil, err
		}
	}
	if err := k.Compile(); err != nil {
		return nil, err
	}
	return k, nil
}

func runMigration(schemaHex, wlHex string) *migCase {
	key := schemaHex + " " + wlHex
	if c, ok := migCache[key]; ok {
		return c
	}
	c := &migCase{}
	migCache[key] = c
	text, ok1 := unhex(schemaHex)
	wl, ok2 := unhex(wlHex)
	if !ok1 || !ok2 {
		c.status = "bad-op"
		return c
	}
	sc := newScratch()
	defer sc.close()
	// the original schema's TL2 view
	orig := sc.write("orig/s.tl", text)
	k1, err := compileKernel([]string{orig}, "*")
	if err != nil {
		c.status = "err compile"
		return c
	}
	// the real migration (tl2gen --language=tl2migration --tl2WhiteList=<wl> s.tl)
	p := sc.write("mig/s.tl", text)
	opts := pure.OptionsKernel{TypesWhiteList: "*", TL2WhiteList: string(wl), ErrorWriter: &bytes.Buffer{}}
	km := pure.NewKernel(&opts)
	if err := km.AddFileTL1(p); err != nil {
		c.status = "err compile"
		return c
	}
	if err := km.Migration(); err != nil {
		c.status = "err rej"
		return c
	}
	c.k1 = k1
	c.tl1, _ = os.ReadFile(p)
	files := []string{p}
	if data, err := os.ReadFile(p + "2"); err == nil {
		c.tl2 = data
		files = append(files, p+"2")
	}
	c.nsSplit = namespaceSplit(files)
	k2, err := compileKernel(files, "*")
	if err != nil {
		if os.Getenv("VERIF_DEBUG") != "" {
			fmt.Fprintf(os.Stderr, "migrated schema does not compile: %v\n", err)
		}
		c.status = "nocompile"
		return c
	}
	c.k2 = k2
	c.status = "ok"
	// roots: top-level object instances of the original schema that became TL2-origin after the migration
	seen := map[string]bool{}
	for _, ins := range k1.TopLevelTypeInstances() {
		name := ins.CanonicalName()
		if seen[name] {
			continue
		}
		seen[name] = true
		ins2 := k2.GetObjectInstance(name)
		if ins2 == nil {
			if st, ok := ins.(*pure.TypeInstanceStruct); ok && st.ResultType() != nil {
				continue // functions are not addressable as objects
			}
			c.roots = append(c.roots, name)
			continue
		}
		if ins2.Common().OriginTL2() && !ins.Common().OriginTL2() {
			c.roots = append(c.roots, name)
		}
	}
	sort.Strings(c.roots)
	return c
}

// namespaceSplit parses the files the migration wrote (independently of Kernel.Compile) and reports whether a
// non-empty namespace has declarations both in a .tl and in a .tl2 file: the kernel rejects such schemas by design,
// so a whitelist that cuts through a namespace cannot produce a compiling result.
func namespaceSplit(files []string) bool {
	ns1 := map[string]bool{}
	ns2 := map[string]bool{}
	for _, f := range files {
		data, err := os.ReadFile(f)
		if err != nil {
			continue
		}
		if strings.HasSuffix(f, ".tl2") {
			tl, err := tlast.ParseTL2File(string(data), f, tlast.LexerOptions{LexerLanguage: tlast.TL2})
			if err != nil {
				continue
			}
			for _, comb := range tl.Combinators {
				ns2[comb.ReferenceName().Namespace] = true
			}
			continue
		}
		tl, err := tlast.ParseTLFile(string(data), f, tlast.LexerOptions{AllowDirty: true})
		if err != nil {
			continue
		}
		for _, comb := range tl.Combinators() {
			if comb.Builtin || comb.TypeDecl.Name.String() == "Bool" {
				continue
			}
			ns1[comb.Construct.Name.Namespace] = true
			if !comb.IsFunction {
				ns1[comb.TypeDecl.Name.Namespace] = true
			}
		}
	}
	for ns := range ns2 {
		if ns != "" && ns1[ns] {
			return true
		}
	}
	return false
}

// tlomig.migrate <schema-hex> <whitelist-hex>
// -> ok <tl-after-hex> <tl2-hex> (root,d1,d2)…   |  nocompile <ns-split 0|1> <tl-after-hex> <tl2-hex>  |  err rej  |  err compile
func opMigrate(schemaHex, wlHex string) string {
	c := runMigration(schemaHex, wlHex)
	switch c.status {
	case "ok":
	case "nocompile":
		return "nocompile " + b01(c.nsSplit) + " " + hx(c.tl1) + " " + hx(c.tl2)
	default:
		return c.status
	}
	items := make([]string, 0, len(c.roots))
	for _, name := range c.roots {
		i1 := c.k1.GetObjectInstance(name)
		i2 := c.k2.GetObjectInstance(name)
		if i1 == nil {
			continue
		}
		if i2 == nil {
			items = append(items, node(name, exportDesc(i1), "missing"))
			continue
		}
		items = append(items, node(name, exportDesc(i1), exportDesc(i2)))
	}
	return "ok " + hx(c.tl1) + " " + hx(c.tl2) + " " + node(items...)
}

func writeBoth(ins pure.TypeInstance, term *onthefly.VerifSx) (string, string, error) {
	v, err := onthefly.VerifBuildTop(ins, term)
	if err != nil {
		return "", "", err
	}
	var w onthefly.ByteBuilder
	v.WriteTL2(&w, false, false, 0, nil)
	js := v.WriteJSON(nil, &onthefly.TLContext{})
	return hx(w.Buf()), hx(js), nil
}

// tlomig.mig <schema-hex> <whitelist-hex> <root> <d1> <d2> <value> <full>
// -> ok <tl2 under original> <json under original> <same|tl2-differs|json-differs|both-differ|skip>
// (the migrated schema is interpreted only for `full` values: the interpreter has no absent state for TL2-origin optional fields)
func opMig(args []string) string {
	if len(args) != 7 {
		return "bad-op"
	}
	c := runMigration(args[0], args[1])
	if c.status != "ok" {
		return "err " + strings.TrimPrefix(c.status, "err ")
	}
	i1 := c.k1.GetObjectInstance(args[2])
	i2 := c.k2.GetObjectInstance(args[2])
	if i1 == nil || i2 == nil {
		return "err noroot"
	}
	if exportDesc(i1) != args[3] || exportDesc(i2) != args[4] {
		return "desc-mismatch"
	}
	term, err := onthefly.VerifParseSx(args[5])
	if err != nil {
		return "bad-op"
	}
	b1, j1, err := writeBoth(i1, term)
	if err != nil {
		return "err shape1"
	}
	b2, j2, err := writeBoth(i2, term)
	if err != nil && err != onthefly.ErrVerifAbsent {
		return "err shape2" // the value of the original type is not a value of the migrated type
	}
	if args[6] != "1" {
		return "ok " + b1 + " " + j1 + " skip"
	}
	if err == onthefly.ErrVerifAbsent {
		return "ok " + b1 + " " + j1 + " not-full"
	}
	if os.Getenv("VERIF_DEBUG") != "" {
		fmt.Fprintf(os.Stderr, "k1: %s %s\nk2: %s %s\n", b1, j1, b2, j2)
	}
	cmp := "same"
	switch {
	case b1 != b2 && j1 != j2:
		cmp = "both-differ"
	case b1 != b2:
		cmp = "tl2-differs"
	case j1 != j2:
		cmp = "json-differs"
	}
	return "ok " + b1 + " " + j1 + " " + cmp
}

var _ = filepath.Join
