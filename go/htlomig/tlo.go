//go:build verif

package main

import (
	"bytes"
	"errors"
	"io"
	"fmt"
	"os"
	"path/filepath"
	"strconv"
	"strings"

	"github.com/VKCOM/tl/internal/pure"
	"github.com/VKCOM/tl/internal/puregen"
	"github.com/VKCOM/tl/internal/puregen/gentlo"
	"github.com/VKCOM/tl/internal/tlast"
	tls "github.com/VKCOM/tl/internal/tlast/gentlo/tltls"
)

// ---------------------------------------------------------------- s-expressions without spaces

func atom(s string) string {
	if s == "" {
		return "~"
	}
	return s
}

func node(items ...string) string {
	return "(" + strings.Join(items, ",") + ")"
}

func b01(b bool) string {
	if b {
		return "1"
	}
	return "0"
}

func u(v uint32) string { return strconv.FormatUint(uint64(v), 10) }
func i32(v int32) string { return u(uint32(v)) }

// ---------------------------------------------------------------- AST dump (what GenerateTLO reads)

func dumpTypeRef(t *tlast.TypeRef) string {
	args := make([]string, 0, len(t.Args))
	for i := range t.Args {
		a := &t.Args[i]
		if a.IsArith {
			args = append(args, node("A", u(a.Arith.Res)))
		} else {
			args = append(args, dumpTypeRef(&a.T))
		}
	}
	return node("T", atom(t.Type.String()), b01(t.Bare), node(args...))
}

func dumpField(f *tlast.Field) string {
	mask := "n"
	if f.Mask != nil {
		mask = node("m", atom(f.Mask.MaskName), u(f.Mask.BitNumber))
	}
	rep := "n"
	if f.IsRepeated {
		r := &f.ScaleRepeat
		sub := make([]string, 0, len(r.Rep))
		for i := range r.Rep {
			sub = append(sub, dumpField(&r.Rep[i]))
		}
		rep = node("R", b01(r.ExplicitScale), b01(r.Scale.IsArith), u(r.Scale.Arith.Res), atom(r.Scale.Scale), node(sub...))
	}
	return node("F", atom(f.FieldName), mask, b01(f.Excl), rep, dumpTypeRef(&f.FieldType))
}

func dumpComb(c *tlast.Combinator) string {
	mods := make([]string, 0)
	for _, m := range c.Modifiers {
		mods = append(mods, atom(m.Name))
	}
	targs := make([]string, 0)
	for _, t := range c.TemplateArguments {
		targs = append(targs, node(atom(t.FieldName), b01(t.IsNat)))
	}
	fields := make([]string, 0)
	for i := range c.Fields {
		fields = append(fields, dumpField(&c.Fields[i]))
	}
	tdArgs := make([]string, 0)
	for _, a := range c.TypeDecl.Arguments {
		tdArgs = append(tdArgs, atom(a))
	}
	return node("K", b01(c.IsFunction), atom(c.Construct.Name.String()), u(c.Crc32()), node(mods...), node(targs...),
		node(fields...), atom(c.TypeDecl.Name.String()), node(tdArgs...), dumpTypeRef(&c.FuncDecl))
}

func dumpAst(combs []*tlast.Combinator) string {
	items := make([]string, 0, len(combs))
	for _, c := range combs {
		items = append(items, dumpComb(c))
	}
	return node(items...)
}

// ---------------------------------------------------------------- TLO dump (decoded tltls value)

func dumpNatExpr(e *tls.NatExpr) string {
	if c, ok := e.AsNatConst(); ok {
		return node("nc", i32(c.Value))
	}
	v, _ := e.AsNatVar()
	return node("nv", i32(v.Dif), i32(v.VarNum))
}

func dumpArgs(args []tls.Arg) string {
	items := make([]string, 0, len(args))
	for i := range args {
		a := &args[i]
		items = append(items, node("a", hx([]byte(a.Id)), u(a.Flags), i32(a.VarNum), i32(a.ExistVarNum), i32(a.ExistVarBit), dumpTypeExpr(&a.Type)))
	}
	return node(items...)
}

func dumpTypeExpr(e *tls.TypeExpr) string {
	if v, ok := e.AsTypeVar(); ok {
		return node("tv", i32(v.VarNum), i32(v.Flags))
	}
	if a, ok := e.AsArray(); ok {
		return node("ar", dumpNatExpr(&a.Multiplicity), u(a.ArgsNum), dumpArgs(a.Args))
	}
	t, _ := e.AsTypeExpr()
	ch := make([]string, 0, len(t.Children))
	for i := range t.Children {
		c := &t.Children[i]
		if et, ok := c.AsType(); ok {
			ch = append(ch, node("et", dumpTypeExpr(&et.Expr)))
		} else {
			en, _ := c.AsNat()
			ch = append(ch, node("en", dumpNatExpr(&en.Expr)))
		}
	}
	return node("te", i32(t.Name), i32(t.Flags), u(t.ChildrenNum), node(ch...))
}

func dumpLeft(l *tls.CombinatorLeft) string {
	if l.IsBuiltin() {
		return "lb"
	}
	c, _ := l.AsCombinatorLeft()
	return node("l", u(c.ArgsNum), dumpArgs(c.Args))
}

func dumpCombinators(cs []tls.Combinator) string {
	items := make([]string, 0, len(cs))
	for i := range cs {
		c := &cs[i]
		if v4, ok := c.AsV4(); ok {
			items = append(items, node("c4", i32(v4.Name), hx([]byte(v4.Id)), i32(v4.TypeName), dumpLeft(&v4.Left), dumpTypeExpr(&v4.Right.Value), i32(v4.Flags)))
		} else {
			v0, _ := c.AsCombinator()
			items = append(items, node("c0", i32(v0.Name), hx([]byte(v0.Id)), i32(v0.TypeName), dumpLeft(&v0.Left), dumpTypeExpr(&v0.Right.Value)))
		}
	}
	return node(items...)
}

func dumpSchema(s *tls.SchemaV4, maskDate bool) string {
	types := make([]string, 0, len(s.Types))
	for _, t := range s.Types {
		types = append(types, node("t", i32(t.Name), hx([]byte(t.Id)), i32(t.ConstructorsNum), i32(t.Flags), i32(t.Arity), strconv.FormatUint(uint64(t.ParamsType), 10)))
	}
	date := i32(s.Date)
	if maskDate {
		date = "now"
	}
	return node("S", i32(s.Version), date, u(s.TypesNum), node(types...), u(s.ConstructorNum), dumpCombinators(s.Constructors),
		u(s.FunctionsNum), dumpCombinators(s.Functions))
}

// ---------------------------------------------------------------- ops

type scratch struct{ dir string }

func newScratch() *scratch {
	base := os.Getenv("TMPDIR")
	d, err := os.MkdirTemp(base, "htlomig-")
	if err != nil {
		panic(err)
	}
	return &scratch{dir: d}
}

func (s *scratch) close() { _ = os.RemoveAll(s.dir) }

func (s *scratch) write(name string, data []byte) string {
	p := filepath.Join(s.dir, name)
	_ = os.MkdirAll(filepath.Dir(p), 0o755)
	if err := os.WriteFile(p, data, 0o644); err != nil {
		panic(err)
	}
	return p
}

func kernelOpts() pure.OptionsKernel {
	return pure.OptionsKernel{TypesWhiteList: "*", ErrorWriter: &bytes.Buffer{}}
}

// tlomig.ast <schema-hex>: the TL1 combinators exactly as gentlo.Generate sees them (after Kernel.Compile)
func opAst(schemaHex string) string {
	text, ok := unhex(schemaHex)
	if !ok {
		return "bad-op"
	}
	sc := newScratch()
	defer sc.close()
	p := sc.write("s.tl", text)
	opts := kernelOpts()
	k := pure.NewKernel(&opts)
	if err := k.AddFileTL1(p); err != nil {
		return "err parse"
	}
	if err := k.Compile(); err != nil {
		return "err compile"
	}
	return "ok " + dumpAst(k.TL1())
}

// tlomig.tlo <timestamp> <ast> <schema-hex>: tl2gen --language=tlo path (gentlo.Generate), bytes decoded with tltls.
func opTlo(tsStr string, schemaHex string) string {
	ts, err := strconv.ParseUint(tsStr, 10, 32)
	if err != nil {
		return "bad-op"
	}
	text, ok := unhex(schemaHex)
	if !ok {
		return "bad-op"
	}
	sc := newScratch()
	defer sc.close()
	p := sc.write("s.tl", text)
	opt := puregen.Options{Language: "tlo", Outfile: filepath.Join(sc.dir, "out.tlo"), SchemaTimestamp: uint(ts), ErrorWriter: &bytes.Buffer{}}
	opt.Kernel = kernelOpts()
	k := pure.NewKernel(&opt.Kernel)
	if err := k.AddFileTL1(p); err != nil {
		return "err parse"
	}
	if err := gentlo.Generate(k, &opt); err != nil {
		if strings.Contains(err.Error(), "collision in internal TLO hash") {
			return "err collision"
		}
		if strings.Contains(err.Error(), "error on generating tlo") {
			return "err tlo"
		}
		return "err compile"
	}
	data, err := os.ReadFile(opt.Outfile)
	if err != nil {
		return "err nofile"
	}
	var dec tls.SchemaV4
	rest, err := dec.ReadTL1Boxed(data)
	if err != nil {
		return "ok " + hx(data) + " DECODE-FAILS"
	}
	if len(rest) != 0 {
		return "ok " + hx(data) + " DECODE-LEAVES-REST"
	}
	again, err := dec.WriteTL1Boxed(nil)
	if err != nil || !bytes.Equal(again, data) {
		return "ok " + hx(data) + " REENCODE-DIFFERS"
	}
	desc := dumpSchema(&dec, ts == 0)
	// the value the generator built in memory must be what the bytes decode to
	var tl tlast.TL
	for _, comb := range k.TL1() {
		tl.CS = append(tl.CS, tlast.CombinatorOrSection{C: comb})
	}
	direct, err := tl.GenerateTLO(uint32(ts))
	if err != nil {
		return "ok " + hx(data) + " DIRECT-FAILS"
	}
	if d2 := dumpSchema(&direct, ts == 0); d2 != desc {
		return "ok " + hx(data) + " DECODED-DIFFERS-FROM-GENERATED " + desc + " " + d2
	}
	if ts == 0 {
		// the date is the wall clock: compare everything but the 4 date bytes
		if len(data) >= 12 {
			copy(data[8:12], []byte{0, 0, 0, 0})
		}
	}
	return "ok " + hx(data) + " " + desc
}

// tlomig.tlsrt <hex>: decode arbitrary bytes as boxed tls.schema_v4, print description and re-encoding
func opTlsRoundTrip(h string) string {
	data, ok := unhex(h)
	if !ok {
		return "bad-op"
	}
	var dec tls.SchemaV4
	rest, err := dec.ReadTL1Boxed(data)
	if err != nil {
		if errors.Is(err, io.ErrUnexpectedEOF) {
			return "err eof"
		}
		return "err rej"
	}
	again, err := dec.WriteTL1Boxed(nil)
	if err != nil {
		return "err write"
	}
	return fmt.Sprintf("ok %d %s %s", len(data)-len(rest), hx(again), dumpSchema(&dec, false))
}
