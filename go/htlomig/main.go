//go:build verif

// Harness for the `tlomig` family (C26 TLO output, C27 TL1->TL2 migration): runs the real
// internal/tlast, internal/pure, internal/puregen/gentlo and internal/pure/onthefly code in-process
// on the same case lines as the Lean model.
package main

import (
	"bufio"
	"encoding/hex"
	"fmt"
	"os"
	"strings"
)

var realOut *os.File

func unhex(s string) ([]byte, bool) {
	if s == "-" {
		return []byte{}, true
	}
	b, err := hex.DecodeString(s)
	return b, err == nil
}

func hx(b []byte) string {
	if len(b) == 0 {
		return "-"
	}
	return hex.EncodeToString(b)
}

func handle(line string) (res string) {
	defer func() {
		if r := recover(); r != nil {
			if os.Getenv("VERIF_DEBUG") != "" {
				fmt.Fprintf(os.Stderr, "panic: %v\n", r)
			}
			res = "panic"
		}
	}()
	f := strings.Fields(line)
	if len(f) == 0 {
		return "bad-op"
	}
	op, args := f[0], f[1:]
	switch {
	case op == "tlomig.ast" && len(args) == 1:
		return opAst(args[0])
	case op == "tlomig.tlo" && len(args) == 3:
		return opTlo(args[0], args[2])
	case op == "tlomig.tlsrt" && len(args) == 1:
		return opTlsRoundTrip(args[0])
	case op == "tlomig.migrate" && len(args) == 2:
		return opMigrate(args[0], args[1])
	case op == "tlomig.mig" && len(args) == 7:
		return opMig(args)
	}
	return "bad-op"
}

func main() {
	realOut = os.Stdout
	if devnull, err := os.OpenFile(os.DevNull, os.O_WRONLY, 0); err == nil {
		os.Stdout = devnull // the kernel prints progress with fmt.Printf
	}
	in := bufio.NewReaderSize(os.Stdin, 1<<20)
	out := bufio.NewWriterSize(realOut, 1<<20)
	defer out.Flush()
	for {
		line, err := in.ReadString('\n')
		if len(line) > 0 {
			out.WriteString(handle(strings.TrimRight(line, "\r\n")))
			out.WriteByte('\n')
		}
		if err != nil {
			break
		}
	}
}
