//go:build verif

package onthefly

import (
	"encoding/hex"
	"fmt"
	"strconv"

	"github.com/VKCOM/tl/internal/pure"
)

// VerifSx is an s-expression without spaces (atom or list), the value-term syntax of the tlomig harness.
type VerifSx struct {
	Atom string
	List []*VerifSx
	IsL  bool
}

func VerifParseSx(s string) (*VerifSx, error) {
	var stack []*VerifSx
	var done *VerifSx
	tok := []byte{}
	flush := func() {
		if len(tok) > 0 {
			top := stack[len(stack)-1]
			top.List = append(top.List, &VerifSx{Atom: string(tok)})
			tok = tok[:0]
		}
	}
	for i := 0; i < len(s); i++ {
		ch := s[i]
		switch ch {
		case '(':
			if len(tok) > 0 || done != nil {
				return nil, fmt.Errorf("bad sexp")
			}
			stack = append(stack, &VerifSx{IsL: true})
		case ',':
			if len(stack) == 0 {
				return nil, fmt.Errorf("bad sexp")
			}
			flush()
		case ')':
			if len(stack) == 0 {
				return nil, fmt.Errorf("bad sexp")
			}
			flush()
			nd := stack[len(stack)-1]
			stack = stack[:len(stack)-1]
			if len(stack) == 0 {
				done = nd
			} else {
				top := stack[len(stack)-1]
				top.List = append(top.List, nd)
			}
		default:
			if len(stack) == 0 {
				return nil, fmt.Errorf("bad sexp")
			}
			tok = append(tok, ch)
		}
	}
	if done == nil || len(stack) != 0 {
		return nil, fmt.Errorf("bad sexp")
	}
	return done, nil
}

func (s *VerifSx) head() string {
	if s == nil || !s.IsL || len(s.List) == 0 || s.List[0].IsL {
		return ""
	}
	return s.List[0].Atom
}

var errShape = fmt.Errorf("value term does not fit the type")

// ErrVerifAbsent: the value has an absent optional field of a TL2-origin struct, which onthefly cannot represent.
var ErrVerifAbsent = fmt.Errorf("absent optional field of a TL2-origin struct")

// VerifFieldOptional: the field may be absent in the TL2 view (TL1 fields mask or TL2 optional / bit).
func VerifFieldOptional(f pure.Field) bool {
	return f.FieldMask() != nil || f.MaskTL2Bit() != nil
}

// VerifBuild constructs the interpreter value described by an alias-transparent value term:
//
//	(i,<dec>) integer / float bit pattern / byte     (b,0|1) bool     (t) bit     (x,<hex>|-) string
//	(S,f…) struct, a field is `n` when absent        (U,idx,f…) union variant `idx` with its fields
//	(A,e…) array / tuple                             (M,(S,k,v)…) dictionary
func VerifBuild(ins pure.TypeInstance, t *VerifSx) (KernelValue, error) {
	return verifBuild(ins, t)
}

// VerifBuildTop builds a whole value; ErrVerifAbsent (with a nil value) if the shape fits but some TL2-origin
// optional field is absent.
func VerifBuildTop(ins pure.TypeInstance, t *VerifSx) (KernelValue, error) {
	verifSawAbsent = false
	v, err := verifBuild(ins, t)
	if err != nil {
		return nil, err
	}
	if verifSawAbsent {
		return nil, ErrVerifAbsent
	}
	return v, nil
}

var verifSawAbsent bool

func verifBuild(ins pure.TypeInstance, t *VerifSx) (KernelValue, error) {
	switch in := ins.(type) {
	case *pure.TypeInstancePrimitive:
		return verifPrim(in, t)
	case *pure.TypeInstanceStruct:
		v, err := verifStruct(in, t)
		if err != nil {
			return nil, err
		}
		return &v, nil
	case *pure.TypeInstanceUnion:
		if t.head() != "U" || len(t.List) < 2 {
			return nil, errShape
		}
		idx, err := strconv.Atoi(t.List[1].Atom)
		if err != nil || idx < 0 || idx >= len(in.VariantTypes()) {
			return nil, errShape
		}
		value := &KernelValueUnion{instance: in, variants: make([]KernelValueStruct, len(in.VariantTypes()))}
		sv, err := verifStructFields(in.VariantTypes()[idx], t.List[2:])
		if err != nil {
			return nil, err
		}
		value.index = idx
		value.variants[idx] = sv
		return value, nil
	case *pure.TypeInstanceArray:
		if t.head() != "A" {
			return nil, errShape
		}
		if in.Field().IsBit() {
			value := &KernelValueArrayBit{instance: in}
			for _, e := range t.List[1:] {
				if e.head() != "b" && e.head() != "t" {
					return nil, errShape
				}
				value.elements = append(value.elements, e.head() == "t" || (len(e.List) == 2 && e.List[1].Atom == "1"))
			}
			return value, nil
		}
		value := &KernelValueArray{instance: in}
		for _, e := range t.List[1:] {
			ev, err := verifBuild(in.Field().TypeInstance(), e)
			if err != nil {
				return nil, err
			}
			value.elements = append(value.elements, ev)
		}
		return value, nil
	case *pure.TypeInstanceDict:
		if t.head() != "M" {
			return nil, errShape
		}
		value := &KernelValueDict{instance: in}
		for _, e := range t.List[1:] {
			sv, err := verifStruct(in.FieldType(), e)
			if err != nil {
				return nil, err
			}
			value.elements = append(value.elements, sv)
		}
		return value, nil
	}
	return nil, errShape
}

func verifStruct(in *pure.TypeInstanceStruct, t *VerifSx) (KernelValueStruct, error) {
	if in.IsAlias() {
		value := KernelValueStruct{instance: in, fields: make([]KernelValue, 1)}
		fv, err := verifBuild(in.Fields()[0].TypeInstance(), t)
		if err != nil {
			return value, err
		}
		value.fields[0] = fv
		return value, nil
	}
	if t.head() != "S" {
		return KernelValueStruct{}, errShape
	}
	return verifStructFields(in, t.List[1:])
}

func verifStructFields(in *pure.TypeInstanceStruct, ts []*VerifSx) (KernelValueStruct, error) {
	value := KernelValueStruct{instance: in, fields: make([]KernelValue, len(in.Fields()))}
	if len(ts) != len(in.Fields()) {
		return value, errShape
	}
	for i, f := range in.Fields() {
		t := ts[i]
		if !t.IsL && t.Atom == "n" {
			if !VerifFieldOptional(f) {
				return value, errShape
			}
			if f.FieldMask() == nil {
				// the interpreter has no "absent" for TL2-origin optional fields (and creating the default of a
				// recursive type would not terminate): the value is not interpretable under this schema; keep
				// checking the shape of the rest and report ErrVerifAbsent at the end
				verifSawAbsent = true
			}
			continue
		}
		if f.IsBit() {
			if t.head() != "t" {
				return value, errShape
			}
			value.fields[i] = CreateValue(f.TypeInstance())
			continue
		}
		fv, err := verifBuild(f.TypeInstance(), t)
		if err != nil {
			return value, err
		}
		value.fields[i] = fv
	}
	return value, nil
}

func verifPrim(in *pure.TypeInstancePrimitive, t *VerifSx) (KernelValue, error) {
	name := in.CanonicalName()
	switch name {
	case "bit":
		if t.head() != "t" {
			return nil, errShape
		}
		return &KernelValueBit{}, nil
	case "bool":
		if t.head() != "b" || len(t.List) != 2 {
			return nil, errShape
		}
		return &KernelValueBool{ins: in, value: t.List[1].Atom == "1"}, nil
	case "string":
		if t.head() != "x" || len(t.List) != 2 {
			return nil, errShape
		}
		var b []byte
		if t.List[1].Atom != "-" {
			var err error
			if b, err = hex.DecodeString(t.List[1].Atom); err != nil {
				return nil, errShape
			}
		}
		return &KernelValueString{value: string(b)}, nil
	}
	if t.head() != "i" || len(t.List) != 2 {
		return nil, errShape
	}
	n, err := strconv.ParseUint(t.List[1].Atom, 10, 64)
	if err != nil {
		return nil, errShape
	}
	switch name {
	case "uint32":
		return &KernelValueUint32{value: uint32(n)}, nil
	case "int32", "float32":
		return &KernelValueInt32{value: int32(uint32(n))}, nil
	case "uint64":
		return &KernelValueUint64{value: n}, nil
	case "int64", "float64":
		return &KernelValueInt64{value: int64(n)}, nil
	case "byte":
		return &KernelValueByte{value: byte(n)}, nil
	}
	return nil, errShape
}
