//go:build verif

package pure
