//go:build verif

// Harness for the `syntaxtl2` family: runs tlast.ParseTL2File / TL2File.Print on the same case lines as the Lean model.
package main

import (
	"bufio"
	"encoding/hex"
	"errors"
	"fmt"
	"io"
	"os"
	"strings"

	"github.com/VKCOM/tl/internal/tlast"
)

func unhex(s string) ([]byte, bool) {
	if s == "-" {
		return []byte{}, true
	}
	b, err := hex.DecodeString(s)
	return b, err == nil
}

func hx(b []byte) string {
	if len(b) == 0 {
		return "-"
	}
	return hex.EncodeToString(b)
}

var tl2opts = tlast.LexerOptions{LexerLanguage: tlast.TL2}

// printAll prints the error every way a caller can (Error() of the returned error and of the *ParseError, ConsolePrint and
// PrintWarning with a nil and with a non-nil outmost error); a panic in any of them is reported as "panic print".
func printAll(err error, pe *tlast.ParseError) (res string) {
	defer func() {
		if r := recover(); r != nil {
			res = "panic print"
		}
	}()
	_ = err.Error()
	_ = pe.Error()
	_ = pe.Unwrap()
	pe.ConsolePrint(io.Discard, nil, false)
	pe.ConsolePrint(io.Discard, nil, true)
	pe.ConsolePrint(io.Discard, err, false)
	pe.PrintWarning(io.Discard, nil)
	pe.PrintWarning(io.Discard, err)
	return ""
}

func errLine(err error) string {
	var pe *tlast.ParseError
	if !errors.As(err, &pe) {
		return "err other"
	}
	if r := printAll(err, pe); r != "" {
		return r
	}
	var sb strings.Builder
	pe.ConsolePrint(&sb, errors.New("E"), false)
	var sw strings.Builder
	pe.PrintWarning(&sw, errors.New("E"))
	o, b, e := tlast.VerifPos(pe.Pos.Outer), tlast.VerifPos(pe.Pos.Begin), tlast.VerifPos(pe.Pos.End)
	return fmt.Sprintf("err %d:%d:%d:%d %d:%d:%d:%d %d:%d:%d:%d %s %s", o[0], o[1], o[2], o[3], b[0], b[1], b[2], b[3],
		e[0], e[1], e[2], e[3], hx([]byte(sb.String())), hx([]byte(sw.String())))
}

func format(f tlast.TL2File, canonical bool) string {
	if !canonical {
		return f.String()
	}
	var sb strings.Builder
	f.Print(&sb, tlast.NewCanonicalFormatOptions())
	return sb.String()
}

func handle(line string) (res string) {
	defer func() {
		if r := recover(); r != nil {
			res = "panic"
		}
	}()
	f := strings.Fields(line)
	if len(f) == 0 {
		return "bad-op"
	}
	op, args := f[0], f[1:]
	switch {
	case op == "syntaxtl2.lex" && len(args) == 1:
		s, ok := unhex(args[0])
		if !ok {
			return "bad-op"
		}
		toks, failed, rec := tlast.VerifLexTL2(string(s))
		st := "ok"
		if failed {
			st = "err"
		}
		if !rec {
			st += "-norecombine"
		}
		return st + " " + strings.Join(toks, ",")
	case op == "syntaxtl2.parse" && len(args) == 1:
		s, ok := unhex(args[0])
		if !ok {
			return "bad-op"
		}
		file, err := tlast.ParseTL2File(string(s), "", tl2opts)
		if err != nil {
			return errLine(err)
		}
		return "ok " + tlast.VerifDumpTL2(file, true)
	case op == "syntaxtl2.fmt" && len(args) == 2 && (args[0] == "d" || args[0] == "c"):
		s, ok := unhex(args[1])
		if !ok {
			return "bad-op"
		}
		canonical := args[0] == "c"
		file, err := tlast.ParseTL2File(string(s), "", tl2opts)
		if err != nil {
			return "rej"
		}
		t1 := format(file, canonical)
		dep, one := tlast.VerifGuardsTL2(file)
		g := fmt.Sprintf(" dep=%v one=%v", dep, one)
		file2, err := tlast.ParseTL2File(t1, "", tl2opts)
		if err != nil {
			return "ok " + hx([]byte(t1)) + " rt=err cm=na idem=na" + g
		}
		rt, cm, idem := "same", "same", "yes"
		if tlast.VerifDumpTL2(file, false) != tlast.VerifDumpTL2(file2, false) {
			rt = "diff"
		}
		if tlast.VerifDumpTL2(file, true) != tlast.VerifDumpTL2(file2, true) {
			cm = "diff"
		}
		t2 := format(file2, canonical)
		if t2 != t1 {
			idem = "no"
		}
		return "ok " + hx([]byte(t1)) + " rt=" + rt + " cm=" + cm + " idem=" + idem + g
	}
	return "bad-op"
}

func main() {
	in := bufio.NewReaderSize(os.Stdin, 1<<20)
	out := bufio.NewWriterSize(os.Stdout, 1<<20)
	defer out.Flush()
	for {
		line, err := in.ReadString('\n')
		if len(line) > 0 {
			fmt.Fprintln(out, handle(strings.TrimRight(line, "\r\n")))
		}
		if err != nil {
			return
		}
	}
}
