//go:build verif

// Overlaid into package tlast (go build -overlay) by checks/C20.py, checks/C22.py: read-only accessors
// to unexported position fields, the token list, and a canonical AST dump of TL2File.
package tlast

import (
	enchex "encoding/hex"
	"strconv"
	"strings"
)

// VerifPos returns (line, column, startLineOffset, offset) of a position.
func VerifPos(p Position) [4]int { return [4]int{p.line, p.column, p.startLineOffset, p.offset} }

// VerifLexTL2 runs the shared lexer in TL2 mode; returns "type:len" per token, whether an error was returned,
// and whether recombination reproduces the input.
func VerifLexTL2(str string) (toks []string, failed bool, recombined bool) {
	lex := newLexer(str, "", LexerOptions{LexerLanguage: TL2})
	all, err := lex.generateTokens()
	for _, t := range all {
		toks = append(toks, strconv.Itoa(t.tokenType)+":"+strconv.Itoa(len(t.val))+":"+strconv.Itoa(t.pos.offset)+":"+strconv.Itoa(t.pos.line)+":"+strconv.Itoa(t.pos.column))
	}
	return toks, err != nil, lex.recombineTokens() == str
}

func verifHex(s string) string {
	if s == "" {
		return "-"
	}
	return enchex.EncodeToString([]byte(s))
}

type verifDumper struct {
	sb   strings.Builder
	full bool // with comments
}

func (d *verifDumper) w(s string) { d.sb.WriteString(s) }

func (d *verifDumper) tname(n TL2TypeName) { d.w(n.Namespace); d.w("."); d.w(n.Name) }

func (d *verifDumper) typeRef(t *TL2TypeRef) {
	if t.BracketType != nil {
		d.w("b(")
		if t.BracketType.HasIndex {
			d.arg(&t.BracketType.IndexType)
		} else {
			d.w("n")
		}
		d.w(",")
		d.typeRef(&t.BracketType.ArrayType)
		d.w(")")
		return
	}
	d.w("a(")
	d.tname(t.SomeType.Name)
	if len(t.SomeType.Arguments) > 0 {
		d.w("<")
		for i := range t.SomeType.Arguments {
			if i != 0 {
				d.w(",")
			}
			d.arg(&t.SomeType.Arguments[i])
		}
		d.w(">")
	}
	d.w(")")
}

func (d *verifDumper) arg(a *TL2TypeArgument) {
	if a.IsNumber {
		d.w("N")
		d.w(strconv.FormatUint(uint64(a.Number), 10))
	} else {
		d.w("t")
		d.typeRef(&a.Type)
	}
}

func (d *verifDumper) field(f *TL2Field) {
	d.w("f(")
	if d.full {
		d.w("#" + verifHex(f.CommentBefore) + ";#" + verifHex(f.CommentRight) + ";")
	}
	d.w(f.Name)
	d.w(",")
	if f.IsOptional {
		d.w("o")
	}
	if f.IsIgnored {
		d.w("i")
	}
	d.w(",")
	d.typeRef(&f.Type)
	d.w(")")
}

func (d *verifDumper) fields(fs []TL2Field) {
	d.w("R(")
	for i := range fs {
		d.field(&fs[i])
	}
	d.w(")")
}

func (d *verifDumper) typeDef(t *TL2TypeDefinition) {
	if t.IsTypeAlias {
		d.w("A(")
		d.typeRef(&t.TypeAlias)
		d.w(")")
		return
	}
	d.w("S(")
	if t.StructType.IsUnionType {
		d.w("U(")
		for i := range t.StructType.UnionType.Variants {
			v := &t.StructType.UnionType.Variants[i]
			d.w("V(")
			if d.full {
				d.w("#" + verifHex(v.CommentBefore) + ";")
			}
			d.w(v.Name)
			d.w(",")
			if v.IsTypeAlias {
				d.w("A(")
				d.typeRef(&v.TypeAlias)
				d.w(")")
			} else {
				d.fields(v.Fields)
			}
			d.w(")")
		}
		d.w(")")
	} else {
		d.fields(t.StructType.ConstructorFields)
	}
	d.w(")")
}

func (d *verifDumper) comb(c *TL2Combinator) {
	d.w("C(")
	if d.full {
		d.w("#" + verifHex(c.CommentBefore) + ";")
	}
	for _, a := range c.Annotations {
		d.w("@" + a.Name)
	}
	d.w(",")
	if c.IsFunction {
		d.w("F(")
		d.tname(c.FuncDecl.Name)
		d.w("," + strconv.FormatUint(uint64(c.FuncDecl.Magic), 10) + ",")
		d.fields(c.FuncDecl.Arguments)
		d.w(",")
		d.typeDef(&c.FuncDecl.ReturnType)
		d.w(")")
	} else {
		d.w("T(")
		d.tname(c.TypeDecl.Name)
		d.w("," + strconv.FormatUint(uint64(c.TypeDecl.Magic), 10) + ",")
		for _, ta := range c.TypeDecl.TemplateArguments {
			d.w("<" + ta.Name + ":")
			if ta.Category.IsNatValue {
				d.w("#")
			} else {
				d.w("T")
			}
			d.w(">")
		}
		d.w(",")
		d.typeDef(&c.TypeDecl.Type)
		d.w(")")
	}
	d.w(")")
}

// VerifDumpTL2 prints the AST by the selected branches only (IsFunction, IsTypeAlias, IsUnionType, BracketType != nil,
// IsNumber, HasIndex), without positions; comments only when full.
func VerifDumpTL2(f TL2File, full bool) string {
	d := verifDumper{full: full}
	for i := range f.Combinators {
		d.comb(&f.Combinators[i])
	}
	if d.sb.Len() == 0 {
		return "-"
	}
	return d.sb.String()
}

// VerifGuardsTL2 reports the two shapes on which TL2File.Print is known not to round-trip:
// dep: some field is a deprecated-name field (`_name:T`, IsIgnored with Name != "_");
// one: some union has exactly one variant.
func VerifGuardsTL2(f TL2File) (dep bool, one bool) {
	fields := func(fs []TL2Field) {
		for _, x := range fs {
			if x.IsIgnored && x.Name != "_" {
				dep = true
			}
		}
	}
	def := func(t *TL2TypeDefinition) {
		if t.IsTypeAlias {
			return
		}
		if t.StructType.IsUnionType {
			if len(t.StructType.UnionType.Variants) == 1 {
				one = true
			}
			for _, v := range t.StructType.UnionType.Variants {
				if !v.IsTypeAlias {
					fields(v.Fields)
				}
			}
		} else {
			fields(t.StructType.ConstructorFields)
		}
	}
	for i := range f.Combinators {
		c := &f.Combinators[i]
		if c.IsFunction {
			fields(c.FuncDecl.Arguments)
			def(&c.FuncDecl.ReturnType)
		} else {
			def(&c.TypeDecl.Type)
		}
	}
	return
}
