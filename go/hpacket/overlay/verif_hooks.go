//go:build verif

package rpc

// In-package accessors for the verification harness (go/hpacket). Overlaid at build time; never part of /repo.

func VerifInject(pc *PacketConn, n int64, proto uint32, crc32c bool) {
	pc.readSeqNum = startSeqNum + n
	pc.writeSeqNum = startSeqNum + n
	pc.protocolVersion = proto
	if crc32c {
		pc.setCRC32C()
	}
}

func VerifSetProto(pc *PacketConn, v uint32) { pc.protocolVersion = v }

func VerifSetCRC32C(pc *PacketConn) { pc.setCRC32C() }

func VerifEncrypt(pc *PacketConn, readKey, readIV, writeKey, writeIV []byte) error {
	return pc.encrypt(readKey, readIV, writeKey, writeIV)
}

// number of packets read / written so far
func VerifReadCount(pc *PacketConn) int64  { return pc.readSeqNum - startSeqNum }
func VerifWriteCount(pc *PacketConn) int64 { return pc.writeSeqNum - startSeqNum }

func VerifIsCRC32C(pc *PacketConn) bool { return pc.table == castagnoliTable }

// keys exactly as the handshake derives them (client-send, server-send)
func VerifDeriveKeys(pc *PacketConn, cryptoKey string, clientTime uint32, clientNonce [16]byte, serverTime uint32, serverNonce [16]byte,
	clientIP uint32, clientPort uint16, serverIP uint32, serverPort uint16, sharedSecret []byte) (ck [32]byte, civ [16]byte, sk [32]byte, siv [16]byte) {
	if pc.protocolVersion >= 1 {
		clientIP, clientPort, serverPort = 0, 0, 0
		serverIP = serverTime
	}
	c := deriveCryptoKeys(true, cryptoKey, clientTime, clientNonce, clientIP, clientPort, serverNonce, serverIP, serverPort, sharedSecret)
	s := deriveCryptoKeys(false, cryptoKey, clientTime, clientNonce, clientIP, clientPort, serverNonce, serverIP, serverPort, sharedSecret)
	return c.Key, c.IV, s.Key, s.IV
}

const (
	VerifPacketTypeNonce     = packetTypeRPCNonce
	VerifPacketTypeHandshake = packetTypeRPCHandshake
)

var VerifErrHeaderCorrupted = errHeaderCorrupted

// test hook: flush, then bytes straight into the cryptoWriter (plaintext level, before encryption)
func VerifRawWrite(pc *PacketConn, b []byte) error {
	if err := pc.Flush(); err != nil {
		return err
	}
	_, err := pc.w.Write(b)
	return err
}
