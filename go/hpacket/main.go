//go:build verif

// Harness for the `packet` family: drives real rpc.PacketConn objects over in-memory connections
// (a recording writer side, a chunk-replaying reader side) on the same case lines as the Lean model.
package main

import (
	"bufio"
	"encoding/hex"
	"errors"
	"fmt"
	"io"
	"net"
	"os"
	"strconv"
	"strings"
	"time"

	"github.com/VKCOM/tl/pkg/rpc"
)

func unhex(s string) ([]byte, bool) {
	if s == "-" {
		return []byte{}, true
	}
	b, err := hex.DecodeString(s)
	return b, err == nil
}

func hx(b []byte) string {
	if len(b) == 0 {
		return "-"
	}
	return hex.EncodeToString(b)
}

type addr struct{}

func (addr) Network() string { return "verif" }
func (addr) String() string  { return "verif" }

// memConn: Read serves pre-recorded chunks (one chunk at most per Read, like net.Pipe), then EOF;
// Write records.
type memConn struct {
	chunks [][]byte
	wrote  []byte
	writes int
	local  net.Addr
	remote net.Addr
}

func (c *memConn) Read(p []byte) (int, error) {
	if len(p) == 0 {
		return 0, nil
	}
	for len(c.chunks) > 0 && len(c.chunks[0]) == 0 {
		c.chunks = c.chunks[1:]
	}
	if len(c.chunks) == 0 {
		return 0, io.EOF
	}
	n := copy(p, c.chunks[0])
	c.chunks[0] = c.chunks[0][n:]
	return n, nil
}
func (c *memConn) Write(p []byte) (int, error) {
	c.wrote = append(c.wrote, p...)
	c.writes++
	return len(p), nil
}
func (c *memConn) Close() error { return nil }
func (c *memConn) LocalAddr() net.Addr {
	if c.local != nil {
		return c.local
	}
	return addr{}
}
func (c *memConn) RemoteAddr() net.Addr {
	if c.remote != nil {
		return c.remote
	}
	return addr{}
}
func (c *memConn) SetDeadline(time.Time) error      { return nil }
func (c *memConn) SetReadDeadline(time.Time) error  { return nil }
func (c *memConn) SetWriteDeadline(time.Time) error { return nil }

func errName(err error) string {
	if err == io.EOF {
		return "eof"
	}
	if errors.Is(err, io.ErrUnexpectedEOF) {
		return "ueof"
	}
	tag := rpc.ErrorTag(err)
	has := func(s string) bool { return strings.Contains(tag, s) }
	switch {
	case has("excessive_padding"):
		return "pad"
	case has("out_of_range_packet_size"):
		return "size"
	case has("bad_packet_size"):
		return "size4"
	case has("bad_nonce_packet_type"):
		return "ntype"
	case has("bad_handshake_packet_type"):
		return "htype"
	case has("bad_body_padding_contents"):
		return "bpad"
	case has("crc_mismatch"):
		return "crc"
	}
	if errors.Is(err, rpc.VerifErrHeaderCorrupted) { // the only untagged header error
		return "seq"
	}
	if errors.Is(err, io.EOF) {
		return "eof"
	}
	return "other"
}

type modeOp struct {
	at   int64
	kind byte // 'v', 'c', 'e'
	v    uint32
	key  []byte
	iv   []byte
}

func applyMode(pc *rpc.PacketConn, m modeOp) error {
	switch m.kind {
	case 'v':
		rpc.VerifSetProto(pc, m.v)
	case 'c':
		rpc.VerifSetCRC32C(pc)
	case 'e':
		return rpc.VerifEncrypt(pc, m.key, m.iv, m.key, m.iv)
	}
	return nil
}

func chunkBy(sizes []int, b []byte) [][]byte {
	var res [][]byte
	for i := 0; len(b) > 0; i++ {
		n := sizes[i%len(sizes)]
		if n > len(b) {
			n = len(b)
		}
		res = append(res, b[:n])
		b = b[n:]
	}
	return res
}

func werrName(err error) string {
	tag := rpc.ErrorTag(err)
	switch {
	case strings.Contains(tag, "out_of_range_packet_size"):
		return "large"
	case strings.Contains(tag, "bad_packet_size"):
		return "size4"
	}
	return "other"
}

func conn(args []string) string {
	st := strings.Split(args[0], ":")
	if len(st) != 3 {
		return "bad-op"
	}
	n0, e1 := strconv.ParseInt(st[0], 10, 62)
	pr, e2 := strconv.ParseUint(st[1], 10, 32)
	cc, e3 := strconv.ParseUint(st[2], 10, 8)
	rb, e4 := strconv.Atoi(args[4])
	wb, e5 := strconv.Atoi(args[5])
	if e1 != nil || e2 != nil || e3 != nil || e4 != nil || e5 != nil {
		return "bad-op"
	}
	var sizes []int
	for _, s := range strings.Split(args[2], ",") {
		v, err := strconv.Atoi(s)
		if err != nil || v <= 0 {
			return "bad-op"
		}
		sizes = append(sizes, v)
	}
	// ---- writer
	wc := &memConn{}
	wpc := rpc.NewPacketConn(wc, rb, wb)
	rpc.VerifInject(wpc, n0, uint32(pr), cc != 0)
	var sched []modeOp
	var werrs []string
	ops := []string{}
	if args[1] != "-" {
		ops = strings.Split(args[1], ",")
	}
	for i, o := range ops {
		f := strings.Split(o, ":")
		var err error
		switch {
		case (f[0] == "w" || f[0] == "n") && len(f) == 3:
			t, e := strconv.ParseUint(f[1], 16, 32)
			b, ok := unhex(f[2])
			if e != nil || !ok {
				return "bad-op"
			}
			if f[0] == "w" {
				err = wpc.WritePacket(uint32(t), b, 0)
			} else {
				err = wpc.WritePacketNoFlush(uint32(t), b, 0)
			}
		case f[0] == "2" && len(f) == 4:
			t, e := strconv.ParseUint(f[1], 16, 32)
			b1, ok1 := unhex(f[2])
			b2, ok2 := unhex(f[3])
			if e != nil || !ok1 || !ok2 {
				return "bad-op"
			}
			err = wpc.WritePacket2(uint32(t), b1, b2, 0)
		case f[0] == "r" && len(f) == 2:
			b, ok := unhex(f[1])
			if !ok {
				return "bad-op"
			}
			if e := rpc.VerifRawWrite(wpc, b); e != nil {
				return "flush-error"
			}
		case f[0] == "f" && len(f) == 1:
			if e := wpc.Flush(); e != nil {
				return "flush-error"
			}
		case f[0] == "c" && len(f) == 1:
			m := modeOp{at: rpc.VerifWriteCount(wpc), kind: 'c'}
			sched = append(sched, m)
			_ = applyMode(wpc, m)
		case f[0] == "e" && len(f) == 3:
			k, ok1 := unhex(f[1])
			iv, ok2 := unhex(f[2])
			if !ok1 || !ok2 || len(k) != 32 || len(iv) != 16 {
				return "bad-op"
			}
			m := modeOp{at: rpc.VerifWriteCount(wpc), kind: 'e', key: k, iv: iv}
			sched = append(sched, m)
			if e := applyMode(wpc, m); e != nil {
				return "encrypt-error"
			}
		case len(f) == 1 && strings.HasPrefix(f[0], "v"):
			v, e := strconv.ParseUint(f[0][1:], 10, 32)
			if e != nil {
				return "bad-op"
			}
			m := modeOp{at: rpc.VerifWriteCount(wpc), kind: 'v', v: uint32(v)}
			sched = append(sched, m)
			_ = applyMode(wpc, m)
		default:
			return "bad-op"
		}
		if err != nil {
			werrs = append(werrs, fmt.Sprintf("%d:%s", i, werrName(err)))
		}
	}
	if e := wpc.Flush(); e != nil {
		return "flush-error"
	}
	wire := append([]byte{}, wc.wrote...)
	// ---- corruption
	got := append([]byte{}, wire...)
	switch {
	case args[3] == "-":
	case strings.HasPrefix(args[3], "t"):
		n, err := strconv.Atoi(args[3][1:])
		if err != nil || n < 0 {
			return "bad-op"
		}
		if n < len(got) {
			got = got[:n]
		}
	case strings.HasPrefix(args[3], "x"):
		f := strings.Split(args[3][1:], ":")
		if len(f) != 2 {
			return "bad-op"
		}
		o, e1 := strconv.Atoi(f[0])
		x, e2 := strconv.ParseUint(f[1], 16, 64)
		if e1 != nil || e2 != nil || o < 0 {
			return "bad-op"
		}
		if o < len(got) {
			got[o] ^= byte(x)
		}
	default:
		return "bad-op"
	}
	// ---- reader
	rres := readAll(chunkBy(sizes, got), n0, uint32(pr), cc != 0, sched, rb, wb)
	if !strings.HasPrefix(rres, "r=") {
		return rres
	}
	we := "-"
	if len(werrs) > 0 {
		we = strings.Join(werrs, ",")
	}
	return fmt.Sprintf("ok wire=%s w=%s %s", hx(wire), we, rres)
}

// readAll: a fresh reading end on a connection that delivers `chunks`; mode changes applied at their packet counts
func readAll(chunks [][]byte, n0 int64, proto uint32, crcc bool, sched []modeOp, rb, wb int) string {
	rc := &memConn{chunks: chunks}
	rpcn := rpc.NewPacketConn(rc, rb, wb)
	rpc.VerifInject(rpcn, n0, proto, crcc)
	var evs []string
	var body []byte
	for {
		cnt := rpc.VerifReadCount(rpcn)
		for i := range sched {
			if sched[i].at == cnt && sched[i].kind != 0 {
				if e := applyMode(rpcn, sched[i]); e != nil {
					return "encrypt-error"
				}
				sched[i].kind = 0
			}
		}
		var tip uint32
		var err error
		tip, body, err = rpcn.ReadPacket(body, 0)
		if err != nil {
			evs = append(evs, "e:"+errName(err))
			break
		}
		evs = append(evs, fmt.Sprintf("p:%08x:%s", tip, hx(body)))
	}
	return fmt.Sprintf("r=%s pong=%s", strings.Join(evs, ","), hx(rc.wrote))
}

func parseSizes(s string) []int {
	var sizes []int
	for _, x := range strings.Split(s, ",") {
		v, err := strconv.Atoi(x)
		if err != nil || v <= 0 {
			return nil
		}
		sizes = append(sizes, v)
	}
	return sizes
}

func readOnly(args []string) string {
	st := strings.Split(args[0], ":")
	if len(st) != 3 {
		return "bad-op"
	}
	n0, e1 := strconv.ParseInt(st[0], 10, 62)
	pr, e2 := strconv.ParseUint(st[1], 10, 32)
	cc, e3 := strconv.ParseUint(st[2], 10, 8)
	rb, e4 := strconv.Atoi(args[4])
	stream, ok := unhex(args[2])
	sizes := parseSizes(args[3])
	if e1 != nil || e2 != nil || e3 != nil || e4 != nil || !ok || sizes == nil {
		return "bad-op"
	}
	var sched []modeOp
	if args[1] != "-" {
		for _, o := range strings.Split(args[1], ",") {
			f := strings.Split(o, ":")
			switch {
			case f[0] == "c" && len(f) == 1:
				sched = append(sched, modeOp{at: n0, kind: 'c'})
			case f[0] == "e" && len(f) == 3:
				k, ok1 := unhex(f[1])
				iv, ok2 := unhex(f[2])
				if !ok1 || !ok2 || len(k) != 32 || len(iv) != 16 {
					return "bad-op"
				}
				sched = append(sched, modeOp{at: n0, kind: 'e', key: k, iv: iv})
			case len(f) == 1 && strings.HasPrefix(f[0], "v"):
				v, e := strconv.ParseUint(f[0][1:], 10, 32)
				if e != nil {
					return "bad-op"
				}
				sched = append(sched, modeOp{at: n0, kind: 'v', v: uint32(v)})
			default:
				return "bad-op"
			}
		}
	}
	rres := readAll(chunkBy(sizes, stream), n0, uint32(pr), cc != 0, sched, rb, 4096)
	if !strings.HasPrefix(rres, "r=") {
		return rres
	}
	return "ok " + rres
}

func wlen(args []string) string {
	pr, e1 := strconv.ParseUint(args[0], 10, 32)
	l, e2 := strconv.ParseInt(args[1], 10, 62)
	if e1 != nil || e2 != nil {
		return "bad-op"
	}
	wc := &memConn{}
	pc := rpc.NewPacketConn(wc, 64, 64)
	rpc.VerifInject(pc, 2, uint32(pr), false)
	if err := pc.WritePacketHeaderUnlocked(0x12345678, int(l), 0); err != nil {
		return "err " + werrName(err)
	}
	return "ok"
}

func handle(line string) (res string) {
	defer func() {
		if r := recover(); r != nil {
			res = "panic"
		}
	}()
	f := strings.Fields(line)
	if len(f) == 0 {
		return "bad-op"
	}
	op, args := f[0], f[1:]
	switch {
	case op == "packet.conn" && len(args) == 6:
		return conn(args)
	case op == "packet.read" && (len(args) == 6 || len(args) == 5): // an optional last word is the oracle's claim, not an input
		return readOnly(args)
	case op == "packet.wlen" && len(args) == 2:
		return wlen(args)
	case op == "packet.hs" && len(args) == 7:
		return hs(args)
	}
	return "bad-op"
}

func main() {
	in := bufio.NewReaderSize(os.Stdin, 1<<20)
	out := bufio.NewWriterSize(os.Stdout, 1<<20)
	defer out.Flush()
	for {
		line, err := in.ReadString('\n')
		line = strings.TrimRight(line, "\r\n")
		if line != "" || err == nil {
			out.WriteString(handle(line))
			out.WriteByte('\n')
		}
		if err != nil {
			return
		}
	}
}
