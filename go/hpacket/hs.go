//go:build verif

package main

import (
	"bytes"
	"crypto/aes"
	"crypto/cipher"
	cryptorand "crypto/rand"
	"encoding/binary"
	"fmt"
	"io"
	"net"
	"strconv"
	"strings"
	"sync"
	"time"

	"github.com/VKCOM/tl/pkg/rpc"
	"golang.org/x/crypto/curve25519"
)

// constReader: every Read is filled with the same position-independent pattern, so that the two handshake
// goroutines may call crypto/rand in any order and still get reproducible nonces and scalars.
type constReader struct{ seed byte }

func (r constReader) Read(p []byte) (int, error) {
	for i := range p {
		p[i] = r.seed + byte(i)*7 + 1
	}
	return len(p), nil
}

// queue: unbounded chunk queue with blocking reads
type queue struct {
	mu     sync.Mutex
	cond   *sync.Cond
	chunks [][]byte
	closed bool
}

func newQueue() *queue {
	q := &queue{}
	q.cond = sync.NewCond(&q.mu)
	return q
}

func (q *queue) put(b []byte) {
	q.mu.Lock()
	q.chunks = append(q.chunks, append([]byte{}, b...))
	q.cond.Broadcast()
	q.mu.Unlock()
}

func (q *queue) close() {
	q.mu.Lock()
	q.closed = true
	q.cond.Broadcast()
	q.mu.Unlock()
}

func (q *queue) read(p []byte) (int, error) {
	q.mu.Lock()
	defer q.mu.Unlock()
	for len(q.chunks) == 0 && !q.closed {
		q.cond.Wait()
	}
	if len(q.chunks) == 0 {
		return 0, io.EOF
	}
	n := copy(p, q.chunks[0])
	if n == len(q.chunks[0]) {
		q.chunks = q.chunks[1:]
	} else {
		q.chunks[0] = q.chunks[0][n:]
	}
	return n, nil
}

// duplex in-memory connection end: writes are recorded, optionally corrupted at one stream offset, and delivered
// to the peer in chunks of `chunk` bytes
type bufConn struct {
	in, out   *queue
	chunk     int
	mu        sync.Mutex
	wrote     []byte // as written by the PacketConn (before corruption)
	corruptAt int    // absolute stream offset, -1 = none
	xor       byte
	local     net.Addr
	remote    net.Addr
}

func (c *bufConn) Read(p []byte) (int, error) {
	if len(p) == 0 {
		return 0, nil
	}
	return c.in.read(p)
}

func (c *bufConn) Write(p []byte) (int, error) {
	c.mu.Lock()
	start := len(c.wrote)
	c.wrote = append(c.wrote, p...)
	b := append([]byte{}, p...)
	if c.corruptAt >= start && c.corruptAt < start+len(p) {
		b[c.corruptAt-start] ^= c.xor
	}
	c.mu.Unlock()
	for len(b) > 0 {
		n := c.chunk
		if n > len(b) {
			n = len(b)
		}
		c.out.put(b[:n])
		b = b[n:]
	}
	return len(p), nil
}

func (c *bufConn) written() int {
	c.mu.Lock()
	defer c.mu.Unlock()
	return len(c.wrote)
}

func (c *bufConn) Close() error                     { c.out.close(); c.in.close(); return nil }
func (c *bufConn) CloseWrite() error                { c.out.close(); return nil }
func (c *bufConn) LocalAddr() net.Addr              { return c.local }
func (c *bufConn) RemoteAddr() net.Addr             { return c.remote }
func (c *bufConn) SetDeadline(time.Time) error      { return nil }
func (c *bufConn) SetReadDeadline(time.Time) error  { return nil }
func (c *bufConn) SetWriteDeadline(time.Time) error { return nil }

type pkt struct {
	tip  uint32
	body []byte
}

func parsePkts(s string) ([]pkt, bool) {
	if s == "-" {
		return nil, true
	}
	var res []pkt
	for _, x := range strings.Split(s, ",") {
		f := strings.Split(x, ":")
		if len(f) != 2 {
			return nil, false
		}
		t, err := strconv.ParseUint(f[0], 16, 32)
		b, ok := unhex(f[1])
		if err != nil || !ok {
			return nil, false
		}
		res = append(res, pkt{uint32(t), b})
	}
	return res, true
}

var hsTimeouts int

const hsCryptoKey = "verif-fixed-crypto-key-0123456789abcdef"

type sideRes struct {
	hsErr   error
	hsEnd   int // bytes written when the handshake returned
	evs     []string
	werr    string
	enc     bool
	proto   uint32
	crc32c  bool
}

func readUntilErr(pc *rpc.PacketConn) []string {
	var evs []string
	var body []byte
	for {
		tip, b, err := pc.ReadPacket(body, 0)
		body = b
		if err != nil {
			evs = append(evs, "e:"+errName(err))
			return evs
		}
		evs = append(evs, fmt.Sprintf("p:%08x:%s", tip, hx(body)))
	}
}

func writeAll(pc *rpc.PacketConn, ps []pkt) string {
	for i, p := range ps {
		if err := pc.WritePacket(p.tip, p.body, 0); err != nil {
			return fmt.Sprintf("%d:%s", i, werrName(err))
		}
	}
	return "-"
}

// packet.hs <seed> <enc> <proto> <client packets> <server packets> <chunk> <corrupt>
func hs(args []string) string {
	seed, e1 := strconv.ParseUint(args[0], 10, 8)
	enc := args[1] == "1"
	proto, e2 := strconv.ParseUint(args[2], 10, 32)
	cpk, ok1 := parsePkts(args[3])
	spk, ok2 := parsePkts(args[4])
	chunk, e3 := strconv.Atoi(args[5])
	if e1 != nil || e2 != nil || e3 != nil || !ok1 || !ok2 || chunk <= 0 || (args[1] != "0" && args[1] != "1") {
		return "bad-op"
	}
	corOff, corXor := -1, byte(0)
	if args[6] != "-" {
		f := strings.Split(strings.TrimPrefix(args[6], "x"), ":")
		if len(f) != 2 || !strings.HasPrefix(args[6], "x") {
			return "bad-op"
		}
		o, e4 := strconv.Atoi(f[0])
		x, e5 := strconv.ParseUint(f[1], 16, 8)
		if e4 != nil || e5 != nil || o < 0 || x == 0 {
			return "bad-op"
		}
		corOff, corXor = o, byte(x)
	}
	if hsTimeouts >= 2 {
		return "hs-timeout" // the transport is broken in this build: do not wait 20 s for every further case
	}
	oldRand := cryptorand.Reader
	cryptorand.Reader = constReader{byte(seed)}
	defer func() { cryptorand.Reader = oldRand }()

	q1, q2 := newQueue(), newQueue()
	ca := &net.TCPAddr{IP: net.IPv4(127, 0, 0, 1), Port: 40001}
	sa := &net.TCPAddr{IP: net.IPv4(127, 0, 0, 1), Port: 2442}
	cc := &bufConn{in: q2, out: q1, chunk: chunk, corruptAt: -1, local: ca, remote: sa}
	sc := &bufConn{in: q1, out: q2, chunk: chunk, corruptAt: -1, local: sa, remote: ca}
	cpc := rpc.NewPacketConn(cc, 4096, 4096)
	spc := rpc.NewPacketConn(sc, 4096, 4096)
	var cres, sres sideRes
	var wg sync.WaitGroup
	wg.Add(2)
	go func() {
		defer wg.Done()
		defer func() {
			if r := recover(); r != nil {
				cres.hsErr = fmt.Errorf("panic")
				cc.Close()
			}
		}()
		cres.hsErr = cpc.HandshakeClient(hsCryptoKey, nil, enc, 1000, 0, 10*time.Second, uint32(proto))
		cres.hsEnd = cc.written()
		if cres.hsErr != nil {
			cc.Close()
			return
		}
		cres.enc, cres.proto, cres.crc32c = cpc.Encrypted(), cpc.ProtocolVersion(), rpc.VerifIsCRC32C(cpc)
		if corOff >= 0 {
			cc.mu.Lock()
			cc.corruptAt, cc.xor = cres.hsEnd+corOff, corXor
			cc.mu.Unlock()
		}
		cres.werr = writeAll(cpc, cpk)
		cc.CloseWrite()
		cres.evs = readUntilErr(cpc)
	}()
	go func() {
		defer wg.Done()
		defer func() {
			if r := recover(); r != nil {
				sres.hsErr = fmt.Errorf("panic")
				sc.Close()
			}
		}()
		_, _, sres.hsErr = spc.HandshakeServer([]string{"another-key-that-does-not-match-0123456789", hsCryptoKey}, nil, enc, 2000, 10*time.Second)
		sres.hsEnd = sc.written()
		if sres.hsErr != nil {
			sc.Close()
			return
		}
		sres.enc, sres.proto, sres.crc32c = spc.Encrypted(), spc.ProtocolVersion(), rpc.VerifIsCRC32C(spc)
		sres.evs = readUntilErr(spc)
		sres.werr = writeAll(spc, spk)
		sc.CloseWrite()
	}()
	// watchdog: a broken transport may leave one side waiting for bytes that never come
	done := make(chan struct{})
	go func() { wg.Wait(); close(done) }()
	select {
	case <-done:
	case <-time.After(20 * time.Second):
		hsTimeouts++
		cc.Close()
		sc.Close()
		select {
		case <-done:
		case <-time.After(10 * time.Second):
		}
		return "hs-timeout"
	}
	if cres.hsErr != nil || sres.hsErr != nil {
		return "hs-failed"
	}
	if cres.enc != sres.enc || cres.proto != sres.proto || cres.crc32c != sres.crc32c {
		return "hs-disagree"
	}
	// ---- recover the plaintext streams with the keys the handshake derives (independent CBC decryption)
	cw, sw := cc.wrote, sc.wrote
	var info []string
	cplain, splain := cw, sw
	if cres.enc {
		cn, ok1 := nonceOf(cw)
		sn, ok2 := nonceOf(sw)
		if !ok1 || !ok2 {
			return "hs-unparsed"
		}
		var shared []byte
		if cres.proto >= 2 {
			scalar := make([]byte, 32)
			constReader{byte(seed)}.Read(scalar)
			var err error
			shared, err = curve25519.X25519(scalar, sn.dh[:])
			if err != nil {
				return "hs-dh-failed"
			}
		}
		ck, civ, sk, siv := rpc.VerifDeriveKeys(cpc, hsCryptoKey, cn.time, cn.nonce, sn.time, sn.nonce,
			binary.BigEndian.Uint32(ca.IP.To4()), uint16(ca.Port), binary.BigEndian.Uint32(sa.IP.To4()), uint16(sa.Port), shared)
		var ok bool
		if cplain, ok = cbcPlain(cw, cn.end, ck[:], civ[:]); !ok {
			return "hs-misaligned"
		}
		if splain, ok = cbcPlain(sw, sn.end, sk[:], siv[:]); !ok {
			return "hs-misaligned"
		}
		info = append(info, "ckey="+hx(ck[:]), "civ="+hx(civ[:]), "skey="+hx(sk[:]), "siv="+hx(siv[:]))
	}
	b2i := func(b bool) int {
		if b {
			return 1
		}
		return 0
	}
	info = append(info, "chs="+hx(cw[:cres.hsEnd]), "shs="+hx(sw[:sres.hsEnd]),
		"chp="+hx(cplain[:cres.hsEnd]), "shp="+hx(splain[:sres.hsEnd]))
	head := fmt.Sprintf("ok enc=%d proto=%d crcc=%d", b2i(cres.enc), cres.proto, b2i(cres.crc32c))
	res := fmt.Sprintf("c2s=%s s2c=%s cw=%s sw=%s sr=%s cr=%s", hx(cplain[cres.hsEnd:]), hx(splain[sres.hsEnd:]),
		cres.werr, sres.werr, strings.Join(sres.evs, ","), strings.Join(cres.evs, ","))
	if corOff >= 0 {
		// keys and times differ from run to run: the behaviour under corruption is judged by the oracle only
		return head + " corrupted # " + res + " " + strings.Join(info, " ")
	}
	return head + " " + res + " # " + strings.Join(info, " ")
}

type nonceInfo struct {
	end   int
	time  uint32
	nonce [16]byte
	dh    [32]byte
}

// the nonce packet is the first packet of the stream and is never encrypted: length word, then
// seq, type, keyID, schema, time, nonce[, dh point], crc
func nonceOf(w []byte) (n nonceInfo, ok bool) {
	if len(w) < 4 {
		return n, false
	}
	l := int(binary.LittleEndian.Uint32(w))
	if l < 16+28 || l > len(w) {
		return n, false
	}
	body := w[12 : l-4]
	n.end = l
	n.time = binary.LittleEndian.Uint32(body[8:])
	copy(n.nonce[:], body[12:28])
	if len(body) >= 60 {
		copy(n.dh[:], body[28:60])
	}
	return n, true
}

func cbcPlain(w []byte, start int, key, iv []byte) ([]byte, bool) {
	if (len(w)-start)%16 != 0 {
		return nil, false
	}
	blk, err := aes.NewCipher(key)
	if err != nil {
		return nil, false
	}
	out := append([]byte{}, w...)
	cipher.NewCBCDecrypter(blk, iv).CryptBlocks(out[start:], out[start:])
	if !bytes.Equal(out[:start], w[:start]) {
		return nil, false
	}
	return out, true
}
