//go:build verif

// Harness for the `jsonp` family: runs the JSON primitive writers of pkg/basictl and the Json2Read*
// helpers that the Go generator emits (rendered from the template of the tree under verification into
// the sibling package `helpers`) on the same case lines as the Lean model.
// After " # " every result line carries the verdicts of independent decoders (encoding/json, jlexer
// used directly, the generated helpers) for the property oracle; the model does not produce that part.
package main

import (
	"bufio"
	"bytes"
	"encoding/base64"
	"encoding/hex"
	"encoding/json"
	"fmt"
	"math"
	"os"
	"strings"
	"unicode/utf16"
	"unicode/utf8"

	"github.com/VKCOM/tl/internal/verifh/hjsonp/helpers"
	"github.com/VKCOM/tl/pkg/basictl"
	"github.com/mailru/easyjson/jlexer"
)

func unhex(s string) ([]byte, bool) {
	if s == "-" {
		return []byte{}, true
	}
	b, err := hex.DecodeString(s)
	return b, err == nil
}

func hx(b []byte) string {
	if len(b) == 0 {
		return "-"
	}
	return hex.EncodeToString(b)
}

func bits(s string, n int) (uint64, bool) {
	b, ok := unhex(s)
	if !ok || len(b) != n {
		return 0, false
	}
	var v uint64
	for _, x := range b {
		v = v<<8 | uint64(x)
	}
	return v, true
}

// dirty returns a buffer holding "xyz" with `spare` bytes of garbage capacity behind it.
func dirty(spare int) []byte {
	b := make([]byte, 3+spare)
	for i := range b {
		b[i] = 0xAA
	}
	copy(b, "xyz")
	return b[:3]
}

// appendVariants runs a writer on nil, on a buffer with exact capacity and on one with spare capacity.
func appendVariants(write func(w []byte) []byte) ([]byte, string) {
	w1 := write(nil)
	for _, spare := range []int{0, 1, len(w1) - 1, len(w1), len(w1) + 7, 2*len(w1) + 64} {
		if spare < 0 {
			continue
		}
		w2 := write(dirty(spare))
		if len(w2) < 3 || string(w2[:3]) != "xyz" || !bytes.Equal(w2[3:], w1) {
			return w1, " APPEND-VARIANT-DIFFERS spare=" + fmt.Sprint(spare) + " " + hx(w2)
		}
	}
	return w1, ""
}

func className(f float64) string {
	switch {
	case math.IsNaN(f):
		return "nan"
	case math.IsInf(f, 1):
		return "+inf"
	case math.IsInf(f, -1):
		return "-inf"
	}
	return ""
}

// ---- independent decoders of a JSON string / base64 object

func stdString(w []byte) string {
	if len(w) > 0 && w[0] == '"' {
		var s string
		if err := json.Unmarshal(w, &s); err != nil {
			return "err"
		}
		return hx([]byte(s))
	}
	var o struct {
		B *[]byte `json:"base64"`
	}
	d := json.NewDecoder(bytes.NewReader(w))
	d.DisallowUnknownFields()
	if err := d.Decode(&o); err != nil || o.B == nil || d.More() {
		return "err"
	}
	return hx(*o.B)
}

func jlString(w []byte) string {
	l := jlexer.Lexer{Data: w}
	var res []byte
	if len(w) > 0 && w[0] == '"' {
		res = []byte(l.String())
	} else {
		l.Delim('{')
		key := l.String()
		l.WantColon()
		res = l.Bytes()
		l.WantComma()
		l.Delim('}')
		if key != "base64" {
			return "err"
		}
	}
	l.Consumed()
	if !l.Ok() {
		return "err"
	}
	return hx(res)
}

func genString(w []byte) string {
	l := jlexer.Lexer{Data: w}
	var s string
	err := helpers.Json2ReadString(&l, &s)
	if err != nil {
		return "err"
	}
	if !l.Ok() {
		return "lexerr"
	}
	return fmt.Sprintf("ok %s %d", hx([]byte(s)), l.GetPos())
}

func genStringBytes(w []byte) string {
	l := jlexer.Lexer{Data: w}
	b := []byte("dirty-previous-content")
	err := helpers.Json2ReadStringBytes(&l, &b)
	if err != nil {
		return "err"
	}
	if !l.Ok() {
		return "lexerr"
	}
	return fmt.Sprintf("ok %s %d", hx(b), l.GetPos())
}

func rdOut[T any](w []byte, f func(*jlexer.Lexer, *T) error, show func(T) string) string {
	l := jlexer.Lexer{Data: w}
	var v T
	err := f(&l, &v)
	if err != nil {
		return "err"
	}
	if !l.Ok() {
		return "lexerr"
	}
	return fmt.Sprintf("ok %s %d", show(v), l.GetPos())
}

func dec[T any](v T) string { return fmt.Sprintf("%d", v) }

func stdNum[T any](w []byte, show func(T) string) string {
	var v T
	if err := json.Unmarshal(w, &v); err != nil {
		return "err"
	}
	return show(v)
}

func quoted(w []byte) []byte {
	return append(append([]byte{'"'}, w...), '"')
}

func f64bits(v float64) string { return fmt.Sprintf("%016x", math.Float64bits(v)) }
func f32bits(v float32) string { return fmt.Sprintf("%08x", math.Float32bits(v)) }

func handle(line string) (res string) {
	defer func() {
		if r := recover(); r != nil {
			res = "panic"
		}
	}()
	f := strings.Fields(line)
	if len(f) == 0 {
		return "bad-op"
	}
	op, args := f[0], f[1:]
	switch {
	case op == "jsonp.ws" && len(args) == 1:
		s, ok := unhex(args[0])
		if !ok {
			return "bad-op"
		}
		w, diff := appendVariants(func(w []byte) []byte { return basictl.JSONWriteString(w, string(s)) })
		wb, diffb := appendVariants(func(w []byte) []byte { return basictl.JSONWriteStringBytes(w, s) })
		if !bytes.Equal(w, wb) {
			diff += " BYTES-VARIANT-DIFFERS " + hx(wb)
		}
		v := 0
		if json.Valid(w) {
			v = 1
		}
		return fmt.Sprintf("ok %s%s%s # valid=%d std=%s jl=%s g=%s gb=%s", hx(w), diff, diffb, v,
			stdString(w), jlString(w), strings.ReplaceAll(genString(w), " ", ":"), strings.ReplaceAll(genStringBytes(w), " ", ":"))
	case (op == "jsonp.wu32" || op == "jsonp.wi32") && len(args) == 1:
		b, ok := bits(args[0], 4)
		if !ok {
			return "bad-op"
		}
		if op == "jsonp.wu32" {
			w, diff := appendVariants(func(w []byte) []byte { return basictl.JSONWriteUint32(w, uint32(b)) })
			return fmt.Sprintf("ok %s%s # valid=%t std=%s g=%s gs=%s", hx(w), diff, json.Valid(w), stdNum(w, dec[uint32]),
				strings.ReplaceAll(rdOut(w, helpers.Json2ReadUint32, dec[uint32]), " ", ":"),
				strings.ReplaceAll(rdOut(quoted(w), helpers.Json2ReadUint32, dec[uint32]), " ", ":"))
		}
		w, diff := appendVariants(func(w []byte) []byte { return basictl.JSONWriteInt32(w, int32(uint32(b))) })
		return fmt.Sprintf("ok %s%s # valid=%t std=%s g=%s gs=%s", hx(w), diff, json.Valid(w), stdNum(w, dec[int32]),
			strings.ReplaceAll(rdOut(w, helpers.Json2ReadInt32, dec[int32]), " ", ":"),
			strings.ReplaceAll(rdOut(quoted(w), helpers.Json2ReadInt32, dec[int32]), " ", ":"))
	case (op == "jsonp.wu64" || op == "jsonp.wi64") && len(args) == 1:
		b, ok := bits(args[0], 8)
		if !ok {
			return "bad-op"
		}
		if op == "jsonp.wu64" {
			w, diff := appendVariants(func(w []byte) []byte { return basictl.JSONWriteUint64(w, b) })
			return fmt.Sprintf("ok %s%s # valid=%t std=%s g=%s gs=%s", hx(w), diff, json.Valid(w), stdNum(w, dec[uint64]),
				strings.ReplaceAll(rdOut(w, helpers.Json2ReadUint64, dec[uint64]), " ", ":"),
				strings.ReplaceAll(rdOut(quoted(w), helpers.Json2ReadUint64, dec[uint64]), " ", ":"))
		}
		w, diff := appendVariants(func(w []byte) []byte { return basictl.JSONWriteInt64(w, int64(b)) })
		return fmt.Sprintf("ok %s%s # valid=%t std=%s g=%s gs=%s", hx(w), diff, json.Valid(w), stdNum(w, dec[int64]),
			strings.ReplaceAll(rdOut(w, helpers.Json2ReadInt64, dec[int64]), " ", ":"),
			strings.ReplaceAll(rdOut(quoted(w), helpers.Json2ReadInt64, dec[int64]), " ", ":"))
	case op == "jsonp.wf64" && len(args) == 1:
		b, ok := bits(args[0], 8)
		if !ok {
			return "bad-op"
		}
		v := math.Float64frombits(b)
		w, diff := appendVariants(func(w []byte) []byte { return basictl.JSONWriteFloat64(w, v) })
		g := rdOut(w, helpers.Json2ReadFloat64, f64bits)
		if len(w) > 0 && w[0] == '"' {
			return fmt.Sprintf("ok %s%s # valid=%t g=%s", hx(w), diff, json.Valid(w), strings.ReplaceAll(g, " ", ":"))
		}
		return fmt.Sprintf("ok %s%s # valid=%t std=%s g=%s gs=%s", hx(w), diff, json.Valid(w), stdNum(w, f64bits),
			strings.ReplaceAll(g, " ", ":"), strings.ReplaceAll(rdOut(quoted(w), helpers.Json2ReadFloat64, f64bits), " ", ":"))
	case op == "jsonp.wf32" && len(args) == 1:
		b, ok := bits(args[0], 4)
		if !ok {
			return "bad-op"
		}
		v := math.Float32frombits(uint32(b))
		w, diff := appendVariants(func(w []byte) []byte { return basictl.JSONWriteFloat32(w, v) })
		g := rdOut(w, helpers.Json2ReadFloat32, f32bits)
		if len(w) > 0 && w[0] == '"' {
			return fmt.Sprintf("ok %s%s # valid=%t g=%s", hx(w), diff, json.Valid(w), strings.ReplaceAll(g, " ", ":"))
		}
		return fmt.Sprintf("ok %s%s # valid=%t std=%s g=%s gs=%s", hx(w), diff, json.Valid(w), stdNum(w, f32bits),
			strings.ReplaceAll(g, " ", ":"), strings.ReplaceAll(rdOut(quoted(w), helpers.Json2ReadFloat32, f32bits), " ", ":"))
	case op == "jsonp.rs" && len(args) == 1:
		d, ok := unhex(args[0])
		if !ok {
			return "bad-op"
		}
		a, b := genString(d), genStringBytes(d)
		if a != b {
			return a + " BYTES-VARIANT-DIFFERS " + b
		}
		return a
	case op == "jsonp.ru32" && len(args) == 1:
		d, ok := unhex(args[0])
		if !ok {
			return "bad-op"
		}
		return rdOut(d, helpers.Json2ReadUint32, dec[uint32])
	case op == "jsonp.ru64" && len(args) == 1:
		d, ok := unhex(args[0])
		if !ok {
			return "bad-op"
		}
		return rdOut(d, helpers.Json2ReadUint64, dec[uint64])
	case op == "jsonp.ri32" && len(args) == 1:
		d, ok := unhex(args[0])
		if !ok {
			return "bad-op"
		}
		return rdOut(d, helpers.Json2ReadInt32, dec[int32])
	case op == "jsonp.ri64" && len(args) == 1:
		d, ok := unhex(args[0])
		if !ok {
			return "bad-op"
		}
		return rdOut(d, helpers.Json2ReadInt64, dec[int64])
	case op == "jsonp.rfn64" && len(args) == 1:
		d, ok := unhex(args[0])
		if !ok {
			return "bad-op"
		}
		r := rdOut(d, helpers.Json2ReadFloat64, f64bits)
		if r == "lexerr" {
			return "err"
		}
		return r
	case op == "jsonp.rfn32" && len(args) == 1:
		d, ok := unhex(args[0])
		if !ok {
			return "bad-op"
		}
		r := rdOut(d, helpers.Json2ReadFloat32, f32bits)
		if r == "lexerr" {
			return "err"
		}
		return r
	case op == "jsonp.rf" && len(args) == 1:
		d, ok := unhex(args[0])
		if !ok {
			return "bad-op"
		}
		l := jlexer.Lexer{Data: d}
		var v float64
		err := helpers.Json2ReadFloat64(&l, &v)
		l2 := jlexer.Lexer{Data: d}
		var v2 float32
		err2 := helpers.Json2ReadFloat32(&l2, &v2)
		c := ""
		if err == nil && l.Ok() {
			c = className(v)
		}
		c2 := ""
		if err2 == nil && l2.Ok() {
			c2 = className(float64(v2))
		}
		if c == "" && c2 == "" {
			return "other"
		}
		if c != c2 || l.GetPos() != l2.GetPos() {
			return fmt.Sprintf("ok %s %d FLOAT32-VARIANT-DIFFERS %s %d", c, l.GetPos(), c2, l2.GetPos())
		}
		return fmt.Sprintf("ok %s %d", c, l.GetPos())
	case op == "jsonp.b64e" && len(args) == 1:
		d, ok := unhex(args[0])
		if !ok {
			return "bad-op"
		}
		return "ok " + hx([]byte(base64.StdEncoding.EncodeToString(d)))
	case op == "jsonp.b64d" && len(args) == 1:
		d, ok := unhex(args[0])
		if !ok {
			return "bad-op"
		}
		out := make([]byte, base64.StdEncoding.DecodedLen(len(d)))
		n, err := base64.StdEncoding.Decode(out, d)
		if err != nil {
			return "err"
		}
		return "ok " + hx(out[:n])
	case op == "jsonp.u8" && len(args) == 1:
		d, ok := unhex(args[0])
		if !ok {
			return "bad-op"
		}
		v := 0
		if utf8.Valid(d) {
			v = 1
		}
		if utf8.ValidString(string(d)) != utf8.Valid(d) {
			return "ok VALID-VARIANT-DIFFERS"
		}
		r, sz := utf8.DecodeRune(d)
		r2, sz2 := utf8.DecodeRuneInString(string(d))
		if r != r2 || sz != sz2 {
			return "ok DECODE-VARIANT-DIFFERS"
		}
		return fmt.Sprintf("ok %d %d %d", v, r, sz)
	case op == "jsonp.ue" && len(args) == 1:
		b, ok := bits(args[0], 4)
		if !ok || b > math.MaxInt32 {
			return "bad-op"
		}
		var buf [4]byte
		n := utf8.EncodeRune(buf[:], rune(b))
		return "ok " + hx(buf[:n])
	case op == "jsonp.u16" && len(args) == 2:
		a, ok := bits(args[0], 4)
		b, ok2 := bits(args[1], 4)
		if !ok || !ok2 || a > math.MaxInt32 || b > math.MaxInt32 {
			return "bad-op"
		}
		s := 0
		if utf16.IsSurrogate(rune(a)) {
			s = 1
		}
		return fmt.Sprintf("ok %d %d", utf16.DecodeRune(rune(a), rune(b)), s)
	}
	return "bad-op"
}

func main() {
	in := bufio.NewReaderSize(os.Stdin, 1<<20)
	out := bufio.NewWriterSize(os.Stdout, 1<<20)
	defer out.Flush()
	for {
		line, err := in.ReadString('\n')
		if len(line) > 0 {
			out.WriteString(handle(strings.TrimRight(line, "\r\n")))
			out.WriteByte('\n')
		}
		if err != nil {
			return
		}
	}
}
