//go:build verif

// Prints the generated Go helpers file (Json2ReadString, Json2ReadInt32, ...) of the tree under verification.
package main

import (
	"os"

	"github.com/VKCOM/tl/internal/puregen/gengo"
)

func main() {
	os.Stdout.WriteString(gengo.VerifHelpersCode("helpers"))
}
