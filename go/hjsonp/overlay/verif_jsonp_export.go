//go:build verif

package gengo

// VerifHelpersCode renders the a_tlgen_helpers_code.go template (Json2Read* helpers) exactly as the
// generator emits it into every generated package, so the verification harness runs the template
// of the tree under verification instead of a checked-in copy.
func VerifHelpersCode(pkgName string) string {
	var gen *genGo
	return gen.generateHelpers(HeaderComment, pkgName)
}
