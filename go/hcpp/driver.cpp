// C31, C++ voice: generic driver over the code `tlgen --language=cpp --cpp-generate-meta --cpp-generate-factory`
// produced for one schema. Every type is reached only through the generated __meta / __factory.
// Same line protocol as go/hcpp/main.go:
//
//   cpp.has TYPE                 -> ok obj|fn|none
//   cpp.r1  TYPE HEX [ignored…]  -> ok OUTHEX REST | err | werr | DIFFERS nt=[…] th=[…]
//   cpp.rb1 TYPE HEX [ignored…]  -> same, boxed
//   cpp.rr  TYPE ARGHEX HEX      -> same, function result (arguments read bare from ARGHEX first)
//
// Each read/write case is executed three times: through the non-throwing streams (`bool read(tl_istream&)`) over a
// whole-buffer connector, through the throwing ones (`void read(tl_throwable_istream&)`), and through the non-throwing
// streams over connectors that hand out windows of 1..61 bytes (block-crossing paths of io_streams.cpp); when all give
// the same observation it is printed once, otherwise all are printed behind `DIFFERS`. `oklatched` marks a non-throwing read that returned true although the stream has
// an error latched. Lines are processed in a forked child with an address-space limit and a per-line alarm, so that a
// crash, an uncaught exception in a noexcept function, a runaway allocation (address space is limited to 64 MiB above the driver's own) or a
// non-terminating loop (10 s of CPU time) costs one line (`crash` / `timeout`).
#include <sys/resource.h>
#include <sys/time.h>
#include <sys/types.h>
#include <sys/wait.h>
#include <unistd.h>

#include <algorithm>
#include <csignal>
#include <cstdio>
#include <cstring>
#include <iostream>
#include <sstream>
#include <stdexcept>
#include <string>
#include <vector>

#include "basictl/io_streams.h"
#include "basictl/io_throwable_streams.h"
#include "basictl/impl/string_io.h"

#include "__meta/headers.h"
#include "__factory/headers.h"

namespace bt = ::tlgen::basictl;

static std::string to_hex(const std::byte *data, size_t count) {
    static const char d[] = "0123456789abcdef";
    if (count == 0) return "-";
    std::string r(count * 2, '0');
    for (size_t i = 0; i < count; i++) {
        auto ch = static_cast<unsigned char>(data[i]);
        r[2 * i] = d[ch >> 4];
        r[2 * i + 1] = d[ch & 15];
    }
    return r;
}

static int hv(char c) {
    if (c >= '0' && c <= '9') return c - '0';
    if (c >= 'a' && c <= 'f') return c - 'a' + 10;
    if (c >= 'A' && c <= 'F') return c - 'A' + 10;
    return -1;
}

static bool from_hex(const std::string &s, std::string &out) {
    out.clear();
    if (s == "-") return true;
    if (s.size() % 2) return false;
    out.reserve(s.size() / 2);
    for (size_t i = 0; i < s.size(); i += 2) {
        int a = hv(s[i]), b = hv(s[i + 1]);
        if (a < 0 || b < 0) return false;
        out.push_back(static_cast<char>(a * 16 + b));
    }
    return true;
}

enum Mode { BARE, BOXED, RESULT };

// Connectors that hand out the input / take the output in windows of at most `k` bytes, so that the block-crossing slow
// paths of io_streams.cpp (fetch_data2, fetch_data_append, fetch_pad, store_data2, store_pad) are driven as well.
class chunk_in final : public bt::tl_input_connector {
public:
    chunk_in(const std::string &d, size_t k) : data(d), k(k) {}
    bt::tl_connector_result<std::span<const std::byte>> get_buffer() noexcept override {
        size_t n = std::min(k, data.size() - pos);
        return bt::tl_connector_result(std::span<const std::byte>{reinterpret_cast<const std::byte *>(data.data()) + pos, n});
    }
    void advance(size_t size) noexcept override { pos += size; }
    size_t used() const { return pos; }

private:
    const std::string &data;
    size_t k;
    size_t pos = 0;
};

class chunk_out final : public bt::tl_output_connector {
public:
    explicit chunk_out(size_t k) : k(k) {}
    bt::tl_connector_result<std::span<std::byte>> get_buffer() noexcept override {
        if (buf.size() < pos + k) buf.resize(pos + k);
        return bt::tl_connector_result(std::span<std::byte>{reinterpret_cast<std::byte *>(buf.data()) + pos, k});
    }
    void advance(size_t size) noexcept override { pos += size; }
    std::span<const std::byte> used_buffer() const { return {reinterpret_cast<const std::byte *>(buf.data()), pos}; }

private:
    std::string buf;
    size_t k;
    size_t pos = 0;
};

// a case that burns more CPU time than this (ITIMER_PROF, so machine load does not matter) is reported as `timeout`;
// the wall-clock alarm is only a backstop against a blocked process
static const unsigned LINE_CPU_S = 10;
static const unsigned LINE_WALL_S = 300;
static const unsigned long AS_HEADROOM = 64ul << 20;  // on top of what the process already maps

static size_t in_used(bt::tl_istream_string &c) { return c.used_buffer().size(); }
static size_t in_used(chunk_in &c) { return c.used(); }

// non-throwing streams; IC/OC are the connector types (whole-buffer string connectors or the chunked ones)
template <class IC, class OC>
static std::string run_nt(const ::tlgen::meta::tl_item &item, Mode mode, const std::string &args, const std::string &data,
                          IC &ic, OC &oc) {
    try {
        std::unique_ptr<::tlgen::meta::tl_object> obj;
        std::unique_ptr<::tlgen::meta::tl_function> fn;
        if (mode == RESULT) {
            fn = item.create_function();
            bt::tl_istream_string ac{args};
            bt::tl_istream as{ac};
            if (!fn->read(as) || as.has_error()) return "bad-args";
        } else {
            obj = item.create_object();
        }
        bool r = false, w = true, latched = false;
        size_t used = 0;
        if (mode == RESULT) {
            bt::tl_istream in{ic};
            bt::tl_ostream out{oc};
            r = fn->read_write_result(in, out);
            latched = in.has_error() || out.has_error();
            in.sync();
            out.sync();
            used = in_used(ic);
            // read_write_result does not tell a read failure from a write failure; both are `err`
        } else {
            {
                bt::tl_istream in{ic};
                r = mode == BOXED ? obj->read_boxed(in) : obj->read(in);
                latched = in.has_error();
                in.sync();
                used = in_used(ic);
            }
            if (r) {
                bt::tl_ostream out{oc};
                w = mode == BOXED ? obj->write_boxed(out) : obj->write(out);
                if (out.has_error()) w = false;
                out.sync();
            }
        }
        if (!r) return "err";
        if (!w) return "werr";
        auto ob = oc.used_buffer();
        std::ostringstream os;
        os << (latched ? "oklatched " : "ok ") << to_hex(ob.data(), ob.size()) << " " << (data.size() - used);
        return os.str();
    } catch (const std::exception &e) {
        return "err";
    } catch (...) {
        return "err";
    }
}

// throwing streams
static std::string run_th(const ::tlgen::meta::tl_item &item, Mode mode, const std::string &data) {
    std::unique_ptr<::tlgen::meta::tl_object> obj;
    try {
        obj = item.create_object();
    } catch (...) {
        return "bad-type";
    }
    bt::tl_istream_string ic{data};
    size_t used = 0;
    try {
        bt::tl_throwable_istream in{ic};
        if (mode == BOXED) obj->read_boxed(in); else obj->read(in);
        in.sync();
        used = ic.used_buffer().size();
    } catch (const std::exception &e) {
        return "err";
    } catch (...) {
        return "err";
    }
    std::string outbuf;
    bt::tl_ostream_string oc{outbuf};
    try {
        bt::tl_throwable_ostream out{oc};
        if (mode == BOXED) obj->write_boxed(out); else obj->write(out);
        out.sync();
    } catch (const std::exception &e) {
        return "werr";
    } catch (...) {
        return "werr";
    }
    auto ob = oc.used_buffer();
    std::ostringstream os;
    os << "ok " << to_hex(ob.data(), ob.size()) << " " << (data.size() - used);
    return os.str();
}

// window size of the chunked flavour: a deterministic function of the case line
static size_t chunk_size(const std::string &line) {
    static const size_t ks[] = {1, 2, 3, 4, 5, 7, 8, 13, 16, 61};
    size_t h = 1469598103u;
    for (unsigned char ch : line) h = (h ^ ch) * 16777619u;
    return ks[(h >> 7) % (sizeof ks / sizeof ks[0])];
}

static std::string three(const ::tlgen::meta::tl_item &item, Mode mode, const std::string &args, const std::string &data,
                         const std::string &line) {
    std::string a, b, ck;
    {
        bt::tl_istream_string ic{data};
        std::string outbuf;
        bt::tl_ostream_string oc{outbuf};
        a = run_nt(item, mode, args, data, ic, oc);
    }
    b = mode == RESULT ? a : run_th(item, mode, data);
    {
        size_t k = chunk_size(line);
        chunk_in ic{data, k};
        chunk_out oc{k};
        ck = run_nt(item, mode, args, data, ic, oc);
    }
    if (a == b && a == ck) return a;
    return "DIFFERS nt=[" + a + "] th=[" + b + "] ck=[" + ck + "]";
}

static std::vector<std::string> fields(const std::string &l) {
    std::vector<std::string> f;
    std::istringstream is(l);
    std::string w;
    while (is >> w) f.push_back(w);
    return f;
}

static std::string handle(const std::string &line) {
    auto f = fields(line);
    if (f.empty()) return "bad-op";
    if (f[0] == "cpp.has" && f.size() == 2) {
        auto it = ::tlgen::meta::get_item_by_name(std::string(f[1]));
        if (!it.has_value()) return "ok none";
        if (it->has_create_function) return "ok fn";
        if (it->has_create_object) return "ok obj";
        return "ok none";
    }
    bool r1 = f[0] == "cpp.r1", rb1 = f[0] == "cpp.rb1", rr = f[0] == "cpp.rr";
    if ((r1 || rb1) && f.size() >= 3) {
        std::string data;
        if (!from_hex(f[2], data)) return "bad-op";
        auto it = ::tlgen::meta::get_item_by_name(std::string(f[1]));
        if (!it.has_value() || !it->has_create_object) return "bad-type";
        Mode m = rb1 ? BOXED : BARE;
        return three(*it, m, "", data, line);
    }
    if (rr && f.size() == 4) {
        std::string args, data;
        if (!from_hex(f[2], args) || !from_hex(f[3], data)) return "bad-op";
        auto it = ::tlgen::meta::get_item_by_name(std::string(f[1]));
        if (!it.has_value() || !it->has_create_function) return "bad-type";
        return three(*it, RESULT, args, data, line);
    }
    return "bad-op";
}

static bool write_all(int fd, const char *p, size_t n) {
    while (n > 0) {
        ssize_t k = ::write(fd, p, n);
        if (k <= 0) return false;
        p += k;
        n -= static_cast<size_t>(k);
    }
    return true;
}

int main() {
    std::ios::sync_with_stdio(false);
    std::vector<std::string> lines;
    std::string l;
    while (std::getline(std::cin, l)) {
        while (!l.empty() && (l.back() == '\r' || l.back() == '\n')) l.pop_back();
        lines.push_back(l);
    }
    ::tlgen::factory::set_all_factories();  // once, in the supervisor; children inherit it through fork
    // warm the unwinder's tables here as well: otherwise every forked child pays the first-throw cost again
    try {
        throw std::runtime_error("warm");
    } catch (const std::exception &) {
    }
    size_t idx = 0;
    while (idx < lines.size()) {
        int fds[2];
        if (pipe(fds) != 0) return 2;
        fflush(stdout);
        pid_t pid = fork();
        if (pid < 0) return 2;
        if (pid == 0) {
            close(fds[0]);
            struct rlimit rl;
            unsigned long vsz_pages = 0;
            if (FILE *sf = fopen("/proc/self/statm", "r")) {
                if (fscanf(sf, "%lu", &vsz_pages) != 1) vsz_pages = 0;
                fclose(sf);
            }
            rl.rlim_cur = rl.rlim_max = (rlim_t)(vsz_pages * (unsigned long)sysconf(_SC_PAGESIZE) + AS_HEADROOM);
            setrlimit(RLIMIT_AS, &rl);
            rl.rlim_cur = rl.rlim_max = 0;
            setrlimit(RLIMIT_CORE, &rl);
            for (size_t i = idx; i < lines.size(); i++) {
                struct itimerval tv;
                memset(&tv, 0, sizeof tv);
                tv.it_value.tv_sec = LINE_CPU_S;
                setitimer(ITIMER_PROF, &tv, nullptr);
                alarm(LINE_WALL_S);
                std::string r = handle(lines[i]);
                r.push_back('\n');
                if (!write_all(fds[1], r.data(), r.size())) _exit(3);
            }
            _exit(0);
        }
        close(fds[1]);
        size_t got = 0;
        std::string buf;
        char tmp[65536];
        for (;;) {
            ssize_t k = ::read(fds[0], tmp, sizeof tmp);
            if (k <= 0) break;
            buf.append(tmp, static_cast<size_t>(k));
        }
        close(fds[0]);
        int st = 0;
        waitpid(pid, &st, 0);
        // complete lines only
        size_t pos = 0;
        for (;;) {
            size_t nl = buf.find('\n', pos);
            if (nl == std::string::npos) break;
            if (idx + got < lines.size()) {
                fwrite(buf.data() + pos, 1, nl - pos + 1, stdout);
                got++;
            }
            pos = nl + 1;
        }
        idx += got;
        if (idx < lines.size()) {
            bool to = WIFSIGNALED(st) && (WTERMSIG(st) == SIGALRM || WTERMSIG(st) == SIGPROF);
            fputs(to ? "timeout\n" : "crash\n", stdout);
            idx++;
        }
    }
    fflush(stdout);
    return 0;
}
