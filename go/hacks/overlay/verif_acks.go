//go:build verif

package udp

// In-package driver for AcksToSend (its fields and the generated header types are not reachable from
// outside pkg/rpc). Added at build time with `go build -overlay`; never part of a normal build.

import (
	"github.com/VKCOM/tl/pkg/rpc/internal/gen/tlnetUdpPacket"
)

// VerifAckObs is everything the correspondence run observes after one step, in plain types.
type VerifAckObs struct {
	Prefix    uint32
	Ranges    [][2]uint32
	HaveHoles bool
	Errors    int // number of onError calls of checkInvariantsCommon

	HasPfx   bool
	Pfx      uint32
	HasRange bool
	From, To uint32
	HasSet   bool
	Set      []uint32

	Nack [][2]uint32
}

type VerifAcks struct {
	a AcksToSend
}

func NewVerifAcks(prefix uint32) *VerifAcks {
	return &VerifAcks{a: AcksToSend{ackPrefix: prefix}}
}

func (v *VerifAcks) Add(from, to uint32) {
	v.a.AddAckRange(from, to)
}

// Observe builds both headers on fresh values (as Transport.buildDatagram does) with the same
// AcksToSend, so the reused scratch slices are exercised; everything is copied out.
func (v *VerifAcks) Observe() VerifAckObs {
	var o VerifAckObs
	o.Prefix = v.a.ackPrefix
	steps := 0
	for r := v.a.firstRange; r != nil; r = r.next {
		o.Ranges = append(o.Ranges, [2]uint32{r.ackFrom, r.ackTo})
		steps++
		if steps > 1<<20 { // a cycle in the list: make it visible instead of hanging
			o.Errors = -1
			return o
		}
	}
	o.HaveHoles = v.a.HaveHoles()
	v.a.checkInvariantsCommon(func(string) { o.Errors++ })

	var enc tlnetUdpPacket.EncHeader
	v.a.BuildAck(&enc)
	if enc.IsSetPacketAckPrefix() {
		o.HasPfx, o.Pfx = true, enc.PacketAckPrefix
	}
	if enc.IsSetPacketAckFrom() || enc.IsSetPacketAckTo() {
		o.HasRange, o.From, o.To = true, enc.PacketAckFrom, enc.PacketAckTo
	}
	if enc.IsSetPacketAckSet() {
		o.HasSet = true
		o.Set = append([]uint32{}, enc.PacketAckSet...)
	}

	var req tlnetUdpPacket.ResendRequest
	v.a.BuildNegativeAck(&req)
	for _, r := range req.Ranges {
		o.Nack = append(o.Nack, [2]uint32{r.PacketNumFrom, r.PacketNumTo})
	}
	return o
}
