//go:build verif

// Harness for the `acks` family: drives pkg/rpc/udp.AcksToSend through the in-package overlay
// (go/hacks/overlay/verif_acks.go) on the same case lines as the Lean model.
package main

import (
	"bufio"
	"os"
	"strconv"
	"strings"

	"github.com/VKCOM/tl/pkg/rpc/udp"
)

func pairs(b *strings.Builder, l [][2]uint32) {
	if len(l) == 0 {
		b.WriteByte('-')
		return
	}
	for i, p := range l {
		if i > 0 {
			b.WriteByte(',')
		}
		b.WriteString(strconv.FormatUint(uint64(p[0]), 10))
		b.WriteByte(':')
		b.WriteString(strconv.FormatUint(uint64(p[1]), 10))
	}
}

func observe(b *strings.Builder, v *udp.VerifAcks) {
	o := v.Observe()
	b.WriteString("p=")
	b.WriteString(strconv.FormatUint(uint64(o.Prefix), 10))
	b.WriteString(" r=")
	pairs(b, o.Ranges)
	if o.HaveHoles != (len(o.Ranges) > 0) {
		b.WriteString(" HAVEHOLES-DIFFERS")
	}
	b.WriteString(" e=")
	b.WriteString(strconv.Itoa(o.Errors))
	b.WriteString(" ap=")
	if o.HasPfx {
		b.WriteString(strconv.FormatUint(uint64(o.Pfx), 10))
	} else {
		b.WriteByte('-')
	}
	b.WriteString(" ar=")
	if o.HasRange {
		pairs(b, [][2]uint32{{o.From, o.To}})
	} else {
		b.WriteByte('-')
	}
	b.WriteString(" as=")
	if o.HasSet && len(o.Set) > 0 {
		for i, x := range o.Set {
			if i > 0 {
				b.WriteByte(',')
			}
			b.WriteString(strconv.FormatUint(uint64(x), 10))
		}
	} else if o.HasSet {
		b.WriteString("EMPTY-SET-FLAGGED")
	} else {
		b.WriteByte('-')
	}
	b.WriteString(" n=")
	pairs(b, o.Nack)
}

func handle(line string) (res string) {
	defer func() {
		if r := recover(); r != nil {
			res = "panic"
		}
	}()
	f := strings.Fields(line)
	if len(f) != 3 || f[0] != "acks.seq" {
		return "bad-op"
	}
	p0, err := strconv.ParseUint(f[1], 10, 32)
	if err != nil {
		return "bad-op"
	}
	var ops [][2]uint32
	if f[2] != "-" {
		for _, s := range strings.Split(f[2], ",") {
			ft := strings.Split(s, ":")
			if len(ft) != 2 {
				return "bad-op"
			}
			a, err1 := strconv.ParseUint(ft[0], 10, 32)
			b, err2 := strconv.ParseUint(ft[1], 10, 32)
			if err1 != nil || err2 != nil {
				return "bad-op"
			}
			ops = append(ops, [2]uint32{uint32(a), uint32(b)})
		}
	}
	v := udp.NewVerifAcks(uint32(p0))
	var b strings.Builder
	b.WriteString("ok ")
	observe(&b, v)
	for _, op := range ops {
		v.Add(op[0], op[1])
		b.WriteString(" ; ")
		observe(&b, v)
	}
	return b.String()
}

func main() {
	in := bufio.NewReaderSize(os.Stdin, 1<<20)
	out := bufio.NewWriterSize(os.Stdout, 1<<20)
	defer out.Flush()
	for {
		line, err := in.ReadString('\n')
		line = strings.TrimRight(line, "\r\n")
		if line != "" || err == nil {
			out.WriteString(handle(line))
			out.WriteByte('\n')
		}
		if err != nil {
			return
		}
	}
}
