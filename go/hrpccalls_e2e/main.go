//go:build verif

// End-to-end search harness of the rpccalls family (C38, C39): real rpc.NewClient / rpc.NewServer over loopback
// TCP and Unix sockets, with and without encryption, built with -race.  Every stdin line is one scenario
//
//	rpccalls.e2e <seed> <net:tcp|unix> <crypto:0|1> <workers> <clients> <callsPerClient> <mode:run|closeserver|closeclient|mem>
//
// The harness itself knows what every call must get (bodies carry their own id) and prints one line:
// "ok <stats>" or "VIOLATION <what>".  This is exploration (the oracle of the properties evaluated on real
// concurrent executions), not part of the model tie.
package main

import (
	"bufio"
	"context"
	"encoding/binary"
	"errors"
	"fmt"
	"net"
	"os"
	"path/filepath"
	"strconv"
	"strings"
	"sync"
	"sync/atomic"
	"time"

	"github.com/VKCOM/tl/pkg/rpc"
)

const (
	reqTag  = 0x7e57ca11
	respTag = 0x7e57ca12

	fateOK      = 0
	fateErr     = 1
	fateSlow    = 2
	fateTimeout = 3 // handler blocks; the client's deadline is short
	fateCancel  = 4 // handler blocks; the client cancels
)

type rng struct{ s uint64 }

func (r *rng) next() uint64 {
	r.s += 0x9E3779B97F4A7C15
	z := r.s
	z = (z ^ (z >> 30)) * 0xBF58476D1CE4E5B9
	z = (z ^ (z >> 27)) * 0x94D049BB133111EB
	return z ^ (z >> 31)
}
func (r *rng) below(n int) int { return int(r.next() % uint64(n)) }

type scenario struct {
	cur, max      atomic.Int64
	handled       atomic.Int64
	release       chan struct{}
	violMu        sync.Mutex
	viol          []string
	seenReq       sync.Map // callID -> struct{}: a request handled twice would be a duplicate delivery
	workers       int
}

func (sc *scenario) violation(format string, args ...any) {
	sc.violMu.Lock()
	if len(sc.viol) < 5 {
		sc.viol = append(sc.viol, fmt.Sprintf(format, args...))
	}
	sc.violMu.Unlock()
}

// FNV over the whole body if it is small, else over its length, both ends and a sparse sample of the middle
func checksum(b []byte) uint64 {
	h := uint64(1469598103934665603)
	add := func(p []byte) {
		for _, c := range p {
			h = (h ^ uint64(c)) * 1099511628211
		}
	}
	if len(b) <= 1<<14 {
		add(b)
		return h
	}
	add(b[:4096])
	add(b[len(b)-4096:])
	for j := 4096; j+8 <= len(b)-4096; j += 4099 * 4 {
		add(b[j : j+8])
	}
	return (h ^ uint64(len(b))) * 1099511628211
}

func ownErrCode(callID uint64, kind int) int32 { return int32(-1000*kind) - int32(callID%1000) }

// request body: tag, callID, fate, param(ms), padding…
func (sc *scenario) handler(ctx context.Context, hctx *rpc.HandlerContext) error {
	n := sc.cur.Add(1)
	for {
		m := sc.max.Load()
		if n <= m || sc.max.CompareAndSwap(m, n) {
			break
		}
	}
	defer sc.cur.Add(-1)
	sc.handled.Add(1)
	b := hctx.Request
	if len(b) < 20 || binary.LittleEndian.Uint32(b) != reqTag {
		sc.violation("handler received a malformed request of %d bytes", len(b))
		return &rpc.Error{Code: -9, Description: "malformed"}
	}
	callID := binary.LittleEndian.Uint64(b[4:])
	fate := int(binary.LittleEndian.Uint32(b[12:]))
	param := int(binary.LittleEndian.Uint32(b[16:]))
	if _, dup := sc.seenReq.LoadOrStore(callID, struct{}{}); dup {
		sc.violation("request of call %d reached the handler twice", callID)
	}
	sum := checksum(b)
	switch fate {
	case fateErr:
		return &rpc.Error{Code: ownErrCode(callID, 1), Description: fmt.Sprintf("e%d", callID)}
	case fateSlow:
		select {
		case <-time.After(time.Duration(param) * time.Millisecond):
		case <-sc.release:
		}
	case fateTimeout, fateCancel:
		select {
		case <-ctx.Done():
		case <-sc.release:
		case <-time.After(time.Duration(param) * time.Millisecond):
		}
		return &rpc.Error{Code: ownErrCode(callID, 2), Description: fmt.Sprintf("t%d", callID)}
	}
	hctx.Response = binary.LittleEndian.AppendUint32(hctx.Response, respTag)
	hctx.Response = binary.LittleEndian.AppendUint64(hctx.Response, callID)
	hctx.Response = binary.LittleEndian.AppendUint64(hctx.Response, sum)
	return nil
}

type callSpec struct {
	id      uint64
	fate    int
	param   int
	size    int // body bytes (multiple of 4, >= 20)
	timeout time.Duration
	delay   time.Duration // start delay
	extraTO bool          // put the timeout into the request extra instead of the context
}

const (
	outOK = iota
	outErr
	outTimeout
	outCancel
	outConn
	outConnUnexpected
	outN
)

func classify(sc *scenario, cs callSpec, resp *rpc.Response, err error, closing bool, body []byte) int {
	var rpcErr *rpc.Error
	switch {
	case err == nil:
		if cs.fate != fateOK && cs.fate != fateSlow {
			sc.violation("call %d (fate %d) completed without error", cs.id, cs.fate)
			return outOK
		}
		rb := resp.Body
		if len(rb) != 20 || binary.LittleEndian.Uint32(rb) != respTag {
			sc.violation("call %d received a malformed response of %d bytes", cs.id, len(rb))
		} else if got := binary.LittleEndian.Uint64(rb[4:]); got != cs.id {
			sc.violation("call %d received the response of call %d", cs.id, got)
		} else if binary.LittleEndian.Uint64(rb[12:]) != checksum(body) {
			sc.violation("call %d received a response computed from another request body", cs.id)
		}
		return outOK
	case errors.As(err, &rpcErr):
		want1, want2 := ownErrCode(cs.id, 1), ownErrCode(cs.id, 2)
		switch {
		case cs.fate == fateErr && rpcErr.Code == want1 && rpcErr.Description == fmt.Sprintf("e%d", cs.id):
			return outErr
		case (cs.fate == fateTimeout || cs.fate == fateCancel) && rpcErr.Code == want2 && rpcErr.Description == fmt.Sprintf("t%d", cs.id):
			return outTimeout
		case rpcErr.Code == -3000 || rpcErr.Code == -2014 || rpcErr.Code == -3003 || rpcErr.Code == -4000:
			// server-made errors for this call (timeout before handler start, graceful shutdown, internal): its own
			if cs.timeout == 0 && !closing {
				sc.violation("call %d without deadline got server error %d %q", cs.id, rpcErr.Code, rpcErr.Description)
			}
			return outTimeout
		}
		sc.violation("call %d (fate %d) received a foreign error: code %d %q", cs.id, cs.fate, rpcErr.Code, rpcErr.Description)
		return outErr
	case errors.Is(err, context.DeadlineExceeded):
		if cs.timeout == 0 {
			sc.violation("call %d without deadline got DeadlineExceeded", cs.id)
		}
		return outTimeout
	case errors.Is(err, context.Canceled):
		if cs.fate != fateCancel {
			sc.violation("call %d was not cancelled but got context.Canceled", cs.id)
		}
		return outCancel
	case errors.Is(err, rpc.ErrClientClosed), errors.Is(err, rpc.ErrClientConnClosedSideEffect), errors.Is(err, rpc.ErrClientConnClosedNoSideEffect):
		// its own connection failed: expected when a side is closed; otherwise only under starvation (the packet
		// timeout tears a connection down when the peer does not read for too long) — legitimate, counted separately
		if !closing {
			return outConnUnexpected
		}
		return outConn
	}
	sc.violation("call %d got unexpected error %v", cs.id, err)
	return outConn
}

func runScenario(f []string) string {
	if len(f) != 8 {
		return "bad-op"
	}
	seed, err0 := strconv.ParseUint(f[1], 10, 64)
	network := f[2]
	crypto := f[3] == "1"
	workers, err1 := strconv.Atoi(f[4])
	nclients, err2 := strconv.Atoi(f[5])
	ncalls, err3 := strconv.Atoi(f[6])
	mode := f[7]
	if err0 != nil || err1 != nil || err2 != nil || err3 != nil || (network != "tcp" && network != "unix") ||
		(mode != "run" && mode != "closeserver" && mode != "closeclient" && mode != "mem" && mode != "fin") || nclients < 1 || ncalls < 1 || nclients*ncalls > 4000 {
		return "bad-op"
	}
	if mode == "fin" {
		return runFin(seed, network, crypto, nclients)
	}
	r := &rng{s: seed}
	sc := &scenario{release: make(chan struct{}), workers: workers}
	key := ""
	if crypto {
		key = "verif-crypto-key-0123456789abcdef-0123456789abcdef"
	}
	sopts := []rpc.ServerOptionsFunc{
		rpc.ServerWithLogf(rpc.NoopLogf), rpc.ServerWithHandler(sc.handler), rpc.ServerWithMaxWorkers(workers),
		rpc.ServerWithDisableSpecialHandlers(), rpc.ServerWithRequestMemoryLimit(1), // floor: one maximal packet
	}
	if crypto {
		sopts = append(sopts, rpc.ServerWithCryptoKeys([]string{key}), rpc.ServerWithForceEncryption(true))
	}
	bufSize := 0
	if mode == "mem" {
		// every request accounts max(body, RequestBufSize) bytes: with a multi-MB buffer size a handful of small
		// requests exhaust the 16 MB floor of the request-memory limit, without moving megabytes under -race
		bufSize = 4 * (600000 + r.below(1400000))
		sopts = append(sopts, rpc.ServerWithRequestBufSize(bufSize))
	}
	srv := rpc.NewServer(sopts...)
	var ln net.Listener
	var err error
	netName, addr := "tcp4", ""
	tmpdir := ""
	if network == "tcp" {
		ln, err = net.Listen("tcp4", "127.0.0.1:0")
	} else {
		netName = "unix"
		tmpdir, err = os.MkdirTemp("", "verif-rpc")
		if err == nil {
			ln, err = net.Listen("unix", filepath.Join(tmpdir, "s.sock"))
		}
	}
	if err != nil {
		return "SKIP listen: " + err.Error()
	}
	if tmpdir != "" {
		defer os.RemoveAll(tmpdir)
	}
	addr = ln.Addr().String()
	serveDone := make(chan struct{})
	go func() { _ = srv.Serve(ln); close(serveDone) }()

	// monitor of the server-side limits
	sem := rpc.VerifReqMemSem(srv)
	var maxMem, memLimit int64
	monStop := make(chan struct{})
	monDone := make(chan struct{})
	go func() {
		defer close(monDone)
		for {
			cur, size := sem.Observe()
			cur2, size2 := srv.RequestsMemory()
			memLimit = size
			if cur > maxMem {
				maxMem = cur
			}
			if cur > size || cur < 0 || cur2 > size2 || size != size2 {
				sc.violation("accounted request memory %d exceeds the limit %d", cur, size)
			}
			wc, wt := srv.WorkersPoolSize()
			if wc > wt || wc < 0 {
				sc.violation("worker pool has %d workers, limit %d", wc, wt)
			}
			if workers > 0 && wt != workers {
				sc.violation("worker pool limit is %d, configured %d", wt, workers)
			}
			if workers > 0 && sc.cur.Load() > int64(workers) {
				sc.violation("%d handlers executing, worker limit %d", sc.cur.Load(), workers)
			}
			select {
			case <-monStop:
				return
			case <-time.After(200 * time.Microsecond):
			}
		}
	}()

	closing := atomic.Bool{}
	clients := make([]rpc.Client, nclients)
	for i := range clients {
		copts := []rpc.ClientOptionsFunc{rpc.ClientWithLogf(rpc.NoopLogf)}
		if crypto {
			copts = append(copts, rpc.ClientWithCryptoKey(key), rpc.ClientWithForceEncryption(true))
		}
		clients[i] = rpc.NewClient(copts...)
	}
	var counts [outN]atomic.Int64
	var wg sync.WaitGroup
	var pending atomic.Int64
	total := nclients * ncalls
	specs := make([]callSpec, 0, total)
	for i := 0; i < total; i++ {
		cs := callSpec{id: uint64(i) + 1 + seed%7*100000, size: 20 + 4*r.below(64)}
		if r.below(8) == 0 {
			cs.size = 20 + 4*r.below(20000)
		}
		switch k := r.below(100); {
		case mode == "mem":
			cs.fate, cs.param = fateSlow, 3+r.below(40)
			if r.below(10) == 0 {
				cs.size = 20 + 4*r.below(50000)
			}
		case k < 50:
			cs.fate = fateOK
		case k < 65:
			cs.fate = fateErr
		case k < 80:
			cs.fate, cs.param = fateSlow, 1+r.below(40)
		case k < 91:
			cs.fate, cs.param, cs.timeout = fateTimeout, 3000, time.Duration(20+r.below(60))*time.Millisecond
			cs.extraTO = r.below(3) == 0
		default:
			cs.fate, cs.param, cs.timeout = fateCancel, 400, time.Duration(5+r.below(50))*time.Millisecond
		}
		if mode == "closeserver" || mode == "closeclient" {
			if cs.timeout == 0 {
				cs.timeout = 1500 * time.Millisecond // calls not yet written when the peer goes away end by their own deadline
			}
		}
		cs.delay = time.Duration(r.below(30)) * time.Millisecond / 10
		specs = append(specs, cs)
	}
	start := time.Now()
	for i, cs := range specs {
		cl := clients[i%nclients]
		cs := cs
		wg.Add(1)
		pending.Add(1)
		go func() {
			defer wg.Done()
			defer pending.Add(-1)
			time.Sleep(cs.delay)
			req := cl.GetRequest()
			body := make([]byte, cs.size)
			binary.LittleEndian.PutUint32(body, reqTag)
			binary.LittleEndian.PutUint64(body[4:], cs.id)
			binary.LittleEndian.PutUint32(body[12:], uint32(cs.fate))
			binary.LittleEndian.PutUint32(body[16:], uint32(cs.param))
			step := 4
			if len(body) > 1<<14 {
				step = 4 * 61 // sparse fill of big bodies (the race detector makes byte loops slow)
			}
			for j := 20; j+4 <= len(body); j += step {
				binary.LittleEndian.PutUint32(body[j:], uint32(cs.id)*2654435761+uint32(j))
			}
			req.Body = append(req.Body, body...)
			ctx := context.Background()
			var cancel context.CancelFunc = func() {}
			switch {
			case cs.fate == fateCancel:
				ctx, cancel = context.WithCancel(ctx)
				go func() { time.Sleep(cs.timeout); cancel() }()
			case cs.timeout != 0 && cs.extraTO:
				req.Extra.SetCustomTimeoutMs(int32(cs.timeout / time.Millisecond))
			case cs.timeout != 0:
				ctx, cancel = context.WithTimeout(ctx, cs.timeout)
			}
			resp, err := cl.Do(ctx, netName, addr, req)
			cancel()
			counts[classify(sc, cs, resp, err, closing.Load(), body)].Add(1)
			if resp != nil {
				cl.PutResponse(resp)
			}
		}()
	}
	allDone := make(chan struct{})
	go func() { wg.Wait(); close(allDone) }()
	switch mode {
	case "closeserver":
		time.Sleep(time.Duration(2+r.below(60)) * time.Millisecond)
		closing.Store(true)
		_ = srv.Close()
	case "closeclient":
		time.Sleep(time.Duration(2+r.below(60)) * time.Millisecond)
		closing.Store(true)
		var cw sync.WaitGroup
		for _, cl := range clients {
			cl := cl
			cw.Add(1)
			go func() { defer cw.Done(); _ = cl.Close() }()
		}
		cw.Wait()
	}
	bound := 150 * time.Second // generous: the machine may be heavily loaded; nothing below depends on speed
	select {
	case <-allDone:
	case <-time.After(bound):
		sc.violation("%d of %d calls did not return within %v (mode %s)", pending.Load(), total, bound, mode)
	}
	close(sc.release)
	if mode != "closeclient" {
		for _, cl := range clients {
			_ = cl.Close()
		}
	}
	if mode != "closeserver" {
		_ = srv.Close()
	}
	select {
	case <-serveDone:
	case <-time.After(60 * time.Second):
		sc.violation("Serve did not return after Close")
	}
	close(monStop)
	<-monDone
	if cur, _ := sem.Observe(); cur != 0 {
		sc.violation("request memory %d still accounted after the server was closed", cur)
	}
	if mode == "mem" && sc.max.Load()*int64(bufSize) > memLimit {
		// request memory is held until the handler has returned, so it also bounds the handlers
		sc.violation("%d handlers executed concurrently, each accounting %d bytes of request memory, limit %d", sc.max.Load(), bufSize, memLimit)
	}
	if workers > 0 && sc.max.Load() > int64(workers) {
		sc.violation("%d handlers executed concurrently, worker limit %d", sc.max.Load(), workers)
	}
	sum := int64(0)
	for i := range counts {
		sum += counts[i].Load()
	}
	if sum != int64(total) && pending.Load() == 0 {
		sc.violation("%d results for %d calls", sum, total)
	}
	if len(sc.viol) != 0 {
		return "VIOLATION " + strings.Join(sc.viol, " ;; ")
	}
	return fmt.Sprintf("ok n=%d ok=%d err=%d timeout=%d cancel=%d conn=%d connunexp=%d handled=%d maxconc=%d workers=%d maxmem=%d limit=%d buf=%d ms=%d",
		total, counts[outOK].Load(), counts[outErr].Load(), counts[outTimeout].Load(), counts[outCancel].Load(), counts[outConn].Load(), counts[outConnUnexpected].Load(),
		sc.handled.Load(), sc.max.Load(), workers, maxMem, memLimit, bufSize, time.Since(start).Milliseconds())
}

// Graceful server shutdown: every client has one call in flight whose handler does not answer; the server calls
// Shutdown (rpcServerWantsFin goes to the clients); a second call is issued on every client connection; the
// in-flight calls end by their own local deadline.  Then every client connection must be closed by the client
// (Server.CloseWait returns) and the second calls must complete: served, or failed fast by the reconnect (they
// are FailIfNoConnection and the listener is gone).  All waits are generous and nothing depends on speed, except
// that the defect is only reached when the client processes the FIN before the first call's deadline.
func runFin(seed uint64, network string, crypto bool, nclients int) string {
	r := &rng{s: seed}
	var viol []string
	var vmu sync.Mutex
	violation := func(format string, args ...any) {
		vmu.Lock()
		viol = append(viol, fmt.Sprintf(format, args...))
		vmu.Unlock()
	}
	release := make(chan struct{})
	var started atomic.Int64
	handler := func(ctx context.Context, hctx *rpc.HandlerContext) error {
		b := hctx.Request
		if len(b) < 20 || binary.LittleEndian.Uint32(b) != reqTag {
			return &rpc.Error{Code: -9, Description: "malformed"}
		}
		callID := binary.LittleEndian.Uint64(b[4:])
		if binary.LittleEndian.Uint32(b[12:]) == fateTimeout {
			started.Add(1)
			select { // deliberately deaf to ctx: the call must end on the client side, by its local deadline
			case <-release:
			case <-time.After(120 * time.Second):
			}
		}
		hctx.Response = binary.LittleEndian.AppendUint32(hctx.Response, respTag)
		hctx.Response = binary.LittleEndian.AppendUint64(hctx.Response, callID)
		hctx.Response = binary.LittleEndian.AppendUint64(hctx.Response, checksum(b))
		return nil
	}
	key := ""
	sopts := []rpc.ServerOptionsFunc{rpc.ServerWithLogf(rpc.NoopLogf), rpc.ServerWithHandler(handler), rpc.ServerWithMaxWorkers(16), rpc.ServerWithDisableSpecialHandlers()}
	if crypto {
		key = "verif-crypto-key-0123456789abcdef-0123456789abcdef"
		sopts = append(sopts, rpc.ServerWithCryptoKeys([]string{key}), rpc.ServerWithForceEncryption(true))
	}
	srv := rpc.NewServer(sopts...)
	var ln net.Listener
	var err error
	netName := "tcp4"
	tmpdir := ""
	if network == "tcp" {
		ln, err = net.Listen("tcp4", "127.0.0.1:0")
	} else {
		netName = "unix"
		tmpdir, err = os.MkdirTemp("", "verif-rpc")
		if err == nil {
			ln, err = net.Listen("unix", filepath.Join(tmpdir, "s.sock"))
		}
	}
	if err != nil {
		return "SKIP listen: " + err.Error()
	}
	if tmpdir != "" {
		defer os.RemoveAll(tmpdir)
	}
	addr := ln.Addr().String()
	go func() { _ = srv.Serve(ln) }()
	start := time.Now()
	mkBody := func(id uint64, fate int) []byte {
		body := make([]byte, 20)
		binary.LittleEndian.PutUint32(body, reqTag)
		binary.LittleEndian.PutUint64(body[4:], id)
		binary.LittleEndian.PutUint32(body[12:], uint32(fate))
		return body
	}
	clients := make([]rpc.Client, nclients)
	var wgA, wgB sync.WaitGroup
	var aDeadline, bOK, bConn atomic.Int64
	for i := range clients {
		copts := []rpc.ClientOptionsFunc{rpc.ClientWithLogf(rpc.NoopLogf)}
		if crypto {
			copts = append(copts, rpc.ClientWithCryptoKey(key), rpc.ClientWithForceEncryption(true))
		}
		clients[i] = rpc.NewClient(copts...)
		cl, id := clients[i], uint64(i)+1
		dl := time.Duration(1500+r.below(1500)) * time.Millisecond
		wgA.Add(1)
		go func() {
			defer wgA.Done()
			req := cl.GetRequest()
			req.Body = append(req.Body, mkBody(id, fateTimeout)...)
			ctx, cancel := context.WithTimeout(context.Background(), dl)
			defer cancel()
			resp, err := cl.Do(ctx, netName, addr, req)
			if errors.Is(err, context.DeadlineExceeded) {
				aDeadline.Add(1)
			} else {
				violation("first call of client %d: expected its own deadline, got %v", id, err)
			}
			cl.PutResponse(resp)
		}()
	}
	for w := 0; started.Load() < int64(nclients) && w < 1200; w++ { // all first calls are inside their handlers
		time.Sleep(10 * time.Millisecond)
	}
	srv.Shutdown() // graceful: rpcServerWantsFin to every connection, no new connections
	time.Sleep(time.Duration(20+r.below(200)) * time.Millisecond)
	const bBound = 40 * time.Second
	for i := range clients {
		cl, id := clients[i], uint64(i)+1001
		wgB.Add(1)
		go func() {
			defer wgB.Done()
			req := cl.GetRequest()
			req.FailIfNoConnection = true
			req.Body = append(req.Body, mkBody(id, fateOK)...)
			ctx, cancel := context.WithTimeout(context.Background(), bBound)
			defer cancel()
			resp, err := cl.Do(ctx, netName, addr, req)
			switch {
			case err == nil:
				if len(resp.Body) != 20 || binary.LittleEndian.Uint64(resp.Body[4:]) != id {
					violation("second call %d received a response that is not its own", id)
				}
				bOK.Add(1)
			case errors.Is(err, rpc.ErrClientConnClosedNoSideEffect), errors.Is(err, rpc.ErrClientConnClosedSideEffect):
				bConn.Add(1)
			case errors.Is(err, context.DeadlineExceeded):
				violation("call %d, issued after the server's FIN, never completed: it sat queued for %v on a connection in graceful shutdown "+
					"whose last in-flight call had ended by its local deadline (nobody closed that connection)", id, bBound)
			default:
				violation("second call %d got unexpected error %v", id, err)
			}
			cl.PutResponse(resp)
		}()
	}
	wgA.Wait()
	close(release) // only now may the handlers answer: the first calls have ended locally
	ctx, cancel := context.WithTimeout(context.Background(), bBound)
	if err := srv.CloseWait(ctx); err != nil {
		violation("Server.CloseWait did not return within %v after the in-flight calls had ended by their local deadlines: "+
			"a client connection in graceful shutdown was never closed (%v)", bBound, err)
	}
	cancel()
	wgB.Wait()
	_ = srv.Close()
	for _, cl := range clients {
		_ = cl.Close()
	}
	if len(viol) != 0 {
		return "VIOLATION " + strings.Join(viol, " ;; ")
	}
	return fmt.Sprintf("ok n=%d ok=%d err=0 timeout=%d cancel=0 conn=%d connunexp=0 ms=%d", 2*nclients, bOK.Load(), aDeadline.Load(), bConn.Load(), time.Since(start).Milliseconds())
}

func main() {
	in := bufio.NewScanner(os.Stdin)
	in.Buffer(make([]byte, 1<<16), 1<<20)
	out := bufio.NewWriter(os.Stdout)
	defer out.Flush()
	for in.Scan() {
		f := strings.Fields(in.Text())
		res := "bad-op"
		if len(f) > 0 && f[0] == "rpccalls.e2e" {
			res = runScenario(f)
		}
		out.WriteString(res)
		out.WriteByte('\n')
		out.Flush()
	}
}
