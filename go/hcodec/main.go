//go:build verif

// hcodec: in-repo harness for the codec family.
//   hcodec desc [-tl2 whitelist] files...     dump the kernel's type-instance descriptors as JSON (T3)
//   hcodec otf  [-tl2 whitelist] files...     line protocol served by the dynamic interpreter internal/pure/onthefly (C12)
package main

import (
	"bufio"
	"encoding/hex"
	"encoding/json"
	"errors"
	"flag"
	"fmt"
	"io"
	"os"
	"sort"
	"strconv"
	"strings"

	"github.com/VKCOM/tl/internal/pure"
	"github.com/VKCOM/tl/internal/pure/onthefly"
)

type NatArgJ struct {
	K string `json:"k"` // num | field | param
	V uint32 `json:"v"`
}

type FieldJ struct {
	Name    string    `json:"name"`
	Ty      int       `json:"ty"`
	Bare    bool      `json:"bare"`
	Mask    *NatArgJ  `json:"mask,omitempty"`
	Bit     uint32    `json:"bit"`
	TL2Bit  *int      `json:"tl2bit,omitempty"`
	NatArgs []NatArgJ `json:"natArgs"`
	IsBit   bool      `json:"isBit"`
}

type InstJ struct {
	Idx        int      `json:"idx"`
	Name       string   `json:"name"` // canonical name
	TLName     string   `json:"tlname"`
	Kind       string   `json:"kind"` // prim struct union array dict
	Tag        uint32   `json:"tag"`
	NatParams  int      `json:"natParams"`
	HasTL2     bool     `json:"hasTL2"`
	OriginTL2  bool     `json:"originTL2"`
	TopLevel   bool     `json:"topLevel"`
	BoxedOnly  bool     `json:"boxedOnly"`
	Ann        uint32   `json:"annotations"` // bit i = has k.AllAnnotations()[i]
	Prim       string   `json:"prim,omitempty"`
	FalseTag   uint32   `json:"falseTag,omitempty"`
	TrueTag    uint32   `json:"trueTag,omitempty"`
	Fields     []FieldJ `json:"fields,omitempty"`
	IsAlias    bool     `json:"isAlias,omitempty"`
	IsTypedef  bool     `json:"isTypedef,omitempty"`
	IsUnwrap   bool     `json:"isUnwrap,omitempty"`
	IsUnionEl  bool     `json:"isUnionElement,omitempty"`
	UnionIndex int      `json:"unionIndex,omitempty"`
	IsFunction bool     `json:"isFunction,omitempty"`
	ResultTy   int      `json:"resultTy,omitempty"`
	ResultBare bool     `json:"resultBare,omitempty"`
	ResultNat  []NatArgJ `json:"resultNatArgs,omitempty"`
	ResultAlias bool    `json:"isResultAlias,omitempty"`
	Variants   []int    `json:"variants,omitempty"`
	VarNames   []string `json:"variantNames,omitempty"`
	ElemNat    []NatArgJ `json:"elementNatArgs,omitempty"`
	IsEnum     bool     `json:"isEnum,omitempty"`
	IsMaybe    bool     `json:"isMaybe,omitempty"`
	IsTuple    bool     `json:"isTuple,omitempty"`
	Dynamic    bool     `json:"dynamicSize,omitempty"`
	Count      uint32   `json:"count,omitempty"`
	Elem       *FieldJ  `json:"elem,omitempty"`
}

func natArgs(as []pure.ActualNatArg) []NatArgJ {
	res := []NatArgJ{}
	for _, a := range as {
		res = append(res, natArg(a))
	}
	return res
}

func natArg(a pure.ActualNatArg) NatArgJ {
	switch {
	case a.IsNumber():
		return NatArgJ{"num", a.Number()}
	case a.IsField():
		return NatArgJ{"field", uint32(a.FieldIndex())}
	default:
		return NatArgJ{"param", uint32(a.FieldIndex())}
	}
}

func buildKernel(tl2 string, files []string) (*pure.Kernel, error) {
	// the kernel prints progress with fmt.Printf: keep our stdout protocol clean
	old := os.Stdout
	if null, err := os.OpenFile(os.DevNull, os.O_WRONLY, 0); err == nil {
		os.Stdout = null
		defer func() { os.Stdout = old; null.Close() }()
	}
	opts := &pure.OptionsKernel{TypesWhiteList: "*", TL2WhiteList: tl2, ErrorWriter: io.Discard, InstantiateConstants: true}
	k := pure.NewKernel(opts)
	if err := k.AddFilesFromPaths(files); err != nil {
		return nil, err
	}
	if err := k.Compile(); err != nil {
		return nil, err
	}
	return k, nil
}

// allInstances: the kernel's ordered instance list plus everything reachable from it that the list
// does not contain (union variant structs), in a deterministic order.
func allInstances(k *pure.Kernel) []pure.TypeInstance {
	all := k.AllTypeInstances()
	seen := map[pure.TypeInstance]bool{}
	for _, ins := range all {
		seen[ins] = true
	}
	for i := 0; i < len(all); i++ {
		for _, ch := range all[i].GetChildren(nil, true) {
			if ch != nil && !seen[ch] {
				seen[ch] = true
				all = append(all, ch)
			}
		}
	}
	return all
}

func describe(k *pure.Kernel) []InstJ {
	all := allInstances(k)
	idx := map[pure.TypeInstance]int{}
	for i, ins := range all {
		idx[ins] = i
	}
	field := func(f pure.Field) FieldJ {
		fj := FieldJ{Name: f.Name(), Ty: idx[f.TypeInstance()], Bare: f.Bare(), Bit: f.BitNumber(), TL2Bit: f.MaskTL2Bit(),
			NatArgs: natArgs(f.NatArgs()), IsBit: f.IsBit()}
		if m := f.FieldMask(); m != nil {
			na := natArg(*m)
			fj.Mask = &na
		}
		return fj
	}
	var res []InstJ
	for i, ins := range all {
		c := ins.Common()
		j := InstJ{Idx: i, Name: ins.CanonicalName(), TLName: c.TLName().String(), Tag: c.TLTag(), NatParams: len(c.NatParams()),
			HasTL2: c.HasTL2(), OriginTL2: c.OriginTL2(), TopLevel: c.IsTopLevel(), BoxedOnly: ins.BoxedOnly()}
		if kt := c.KernelType(); kt != nil {
			for bit, a := range k.AllAnnotations() {
				if kt.HasAnnotation(a) && bit < 32 {
					j.Ann |= 1 << bit
				}
			}
		}
		switch t := ins.(type) {
		case *pure.TypeInstancePrimitive:
			j.Kind = "prim"
			j.Prim = ins.CanonicalName()
			if ok, f, tr := t.IsTL1Bool(); ok {
				j.FalseTag, j.TrueTag = f, tr
			}
		case *pure.TypeInstanceStruct:
			j.Kind = "struct"
			for _, f := range t.Fields() {
				j.Fields = append(j.Fields, field(f))
			}
			j.IsAlias, j.IsTypedef, j.IsUnwrap = t.IsAlias(), t.IsTypedef(), t.IsUnwrap()
			j.IsUnionEl, j.UnionIndex = t.IsUnionElement(), t.UnionIndex()
			if rt := t.ResultType(); rt != nil {
				j.IsFunction = true
				j.ResultTy, j.ResultBare, j.ResultNat, j.ResultAlias = idx[rt], t.ResultTypeBare(), natArgs(t.ResultNatArgs()), t.IsResultAlias()
			}
		case *pure.TypeInstanceUnion:
			j.Kind = "union"
			for _, v := range t.VariantTypes() {
				j.Variants = append(j.Variants, idx[v])
			}
			j.VarNames = t.VariantNames()
			j.ElemNat = natArgs(t.ElementNatArgs())
			j.IsEnum = t.IsEnum()
			j.IsMaybe, _ = t.IsUnionMaybe()
		case *pure.TypeInstanceArray:
			j.Kind = "array"
			j.IsTuple, j.Dynamic, j.Count = t.IsTuple(), t.DynamicSize(), t.Count()
			f := field(t.Field())
			j.Elem = &f
		case *pure.TypeInstanceDict:
			j.Kind = "dict"
			f := field(t.Field())
			j.Elem = &f
		default:
			j.Kind = fmt.Sprintf("unknown:%T", ins)
		}
		res = append(res, j)
	}
	return res
}

func unhex(s string) ([]byte, bool) {
	if s == "-" {
		return []byte{}, true
	}
	b, err := hex.DecodeString(s)
	return b, err == nil
}

func hx(b []byte) string {
	if len(b) == 0 {
		return "-"
	}
	return hex.EncodeToString(b)
}

func errStr(err error) string {
	if errors.Is(err, io.ErrUnexpectedEOF) {
		return "err eof"
	}
	return "err rej"
}

func otfW2(v onthefly.KernelValue) string {
	var w onthefly.ByteBuilder
	v.WriteTL2(&w, false, false, 0, nil)
	return hx(w.Buf())
}

func otfW1b(ins pure.TypeInstance, v onthefly.KernelValue) string {
	_, isUnion := ins.(*pure.TypeInstanceUnion)
	if ins.Common().OriginTL2() || !(isUnion || ins.Common().TLTag() != 0) {
		return "n/a"
	}
	var w onthefly.ByteBuilder
	v.WriteTL1(&w, false, nil, false, 0, &onthefly.UIModel{})
	return hx(w.Buf())
}

// line: codec.x1 <sid> <tyIdx> <tlname> <boxed01> <hex>   (same format as the generated-code driver)
func otfHandle(k *pure.Kernel, all []pure.TypeInstance, line string) (res string) {
	defer func() {
		if r := recover(); r != nil {
			res = "panic"
		}
	}()
	f := strings.Fields(line)
	if len(f) >= 1 && f[0] == "codec.desc" {
		if len(f) > 3 {
			return "ok " + f[3]
		}
		return "ok 0"
	}
	if len(f) == 5 && f[0] == "codec.r2" {
		// codec.r2 <sid> <ty> <tlname> <tl2hex>: ReadTL2, answer `ok <consumed> w2=<re-written TL2> w1b=<TL1 boxed | n/a>`
		ty, err := strconv.Atoi(f[2])
		data, ok := unhex(f[4])
		if err != nil || !ok || ty < 0 || ty >= len(all) {
			return "bad-op"
		}
		ins := all[ty]
		if !ins.Common().HasTL2() {
			return "n/a"
		}
		v := onthefly.CreateValue(ins)
		rest, err := v.ReadTL2(data, &onthefly.TLContext{})
		if err != nil {
			return errStr(err)
		}
		return fmt.Sprintf("ok %d w2=%s w1b=%s", len(data)-len(rest), otfW2(v), otfW1b(ins, v))
	}
	if len(f) != 6 || (f[0] != "codec.x1" && f[0] != "codec.x2") {
		return "bad-op"
	}
	ty, err := strconv.Atoi(f[2])
	data, ok := unhex(f[5])
	if err != nil || !ok || ty < 0 || ty >= len(all) {
		return "bad-op"
	}
	ins := all[ty]
	if f[0] == "codec.x2" && !ins.Common().HasTL2() {
		return "n/a"
	}
	v := onthefly.CreateValue(ins)
	ctx := &onthefly.TLContext{}
	var rest []byte
	rest, _, err = v.ReadTL1(data, ctx, f[4] != "1", nil)
	if err != nil {
		return errStr(err)
	}
	if f[0] == "codec.x2" {
		// codec.x2 <sid> <ty> <tlname> <boxed01> <tl1hex>: ReadTL1, answer `ok w2=<TL2> w1b=<TL1 boxed>`
		return fmt.Sprintf("ok w2=%s w1b=%s", otfW2(v), otfW1b(ins, v))
	}
	var sb strings.Builder
	fmt.Fprintf(&sb, "ok %d", len(data)-len(rest))
	_, isUnion := ins.(*pure.TypeInstanceUnion)
	if !isUnion {
		var w onthefly.ByteBuilder
		v.WriteTL1(&w, true, nil, false, 0, &onthefly.UIModel{})
		fmt.Fprintf(&sb, " w1=%s", hx(w.Buf()))
	} else {
		sb.WriteString(" w1=n/a")
	}
	if isUnion || ins.Common().TLTag() != 0 {
		var w onthefly.ByteBuilder
		v.WriteTL1(&w, false, nil, false, 0, &onthefly.UIModel{})
		fmt.Fprintf(&sb, " w1b=%s", hx(w.Buf()))
	} else {
		sb.WriteString(" w1b=n/a")
	}
	return sb.String()
}

func main() {
	if len(os.Args) < 2 {
		fmt.Println("usage: hcodec desc|otf [-tl2 wl] files...")
		os.Exit(2)
	}
	mode := os.Args[1]
	fs := flag.NewFlagSet("hcodec", flag.ExitOnError)
	tl2 := fs.String("tl2", "", "TL2 whitelist")
	_ = fs.Parse(os.Args[2:])
	k, err := func() (k *pure.Kernel, err error) {
		defer func() {
			if r := recover(); r != nil {
				err = fmt.Errorf("KERNEL-PANIC: %v", r)
			}
		}()
		return buildKernel(*tl2, fs.Args())
	}()
	if err != nil {
		fmt.Fprintln(os.Stderr, "kernel error:", err)
		os.Exit(3)
	}
	switch mode {
	case "desc":
		d := describe(k)
		var top []string
		for _, ins := range k.TopLevelTypeInstances() {
			top = append(top, ins.CanonicalName())
		}
		sort.Strings(top)
		out, _ := json.Marshal(map[string]any{"instances": d, "topLevel": top})
		os.Stdout.Write(out)
		fmt.Println()
	case "otf":
		all := allInstances(k)
		in := bufio.NewReaderSize(os.Stdin, 1<<20)
		out := bufio.NewWriterSize(os.Stdout, 1<<20)
		defer out.Flush()
		for {
			line, err := in.ReadString('\n')
			if len(line) > 0 {
				fmt.Fprintln(out, otfHandle(k, all, strings.TrimRight(line, "\r\n")))
				out.Flush() // answers computed before a crash must not be lost (crash isolation blames the right line)
			}
			if err != nil {
				return
			}
		}
	}
}
