//go:build verif

// Harness for the `sema` family: drives the real semaphore.Weighted
//   - through deterministic sequential histories (`sema.h`): every blocking Acquire runs in its own goroutine
//     and the driver waits until that goroutine has left its first critical section before the next operation,
//   - through concurrent random mixes (`sema.soak`), used as search only (build with -race).
package main

import (
	"bufio"
	"context"
	"fmt"
	"os"
	"runtime"
	"sort"
	"strconv"
	"strings"
	"sync"
	"sync/atomic"
	"time"

	"github.com/VKCOM/tl/internal/vkgo/pkg/semaphore"
)

// hctx is a context whose Done() call is observable: Acquire calls ctx.Done() only after it has left its
// first critical section without acquiring (both the "doomed" and the "enqueued" paths).
type hctx struct {
	done   chan struct{}
	called chan struct{}
	once   sync.Once
}

func newCtx() *hctx { return &hctx{done: make(chan struct{}), called: make(chan struct{})} }

func (c *hctx) Deadline() (time.Time, bool) { return time.Time{}, false }
func (c *hctx) Done() <-chan struct{} {
	c.once.Do(func() { close(c.called) })
	return c.done
}
func (c *hctx) Err() error {
	select {
	case <-c.done:
		return context.Canceled
	default:
		return nil
	}
}
func (c *hctx) Value(any) any { return nil }

// A hang (a goroutine that neither returns, nor is queued, nor is parked) can only happen on a broken semaphore.
// The first one is given 20 s (the machine may be heavily loaded); later ones 1 s; after 20 the remaining
// histories of this process are answered `hang` unrun.
var (
	hangs       int
	hangTimeout = 20 * time.Second
)

func noteHang() {
	hangs++
	hangTimeout = time.Second
}

const (
	stRunning = iota
	stOK
	stErr
	stPanic
)

type acq struct {
	ctx      *hctx
	fin      chan struct{}
	status   int32
	reported bool
	doomed   bool
	we       bool // the goroutine runs WaitEmpty (Acquire(size) then Release(size))
	live     bool // goroutine started and not yet known to have finished
}

type hist struct {
	sem      *semaphore.Weighted
	acqs     []*acq
	finished atomic.Int64
	started  int64
	doomedN  int64
	hang     bool
}

func (h *hist) startAcquire(n int64, pre bool, we bool) *acq {
	a := &acq{ctx: newCtx(), fin: make(chan struct{}), live: true, we: we}
	if pre {
		close(a.ctx.done)
	}
	h.acqs = append(h.acqs, a)
	h.started++
	go func() {
		st := int32(stPanic)
		defer func() {
			recover()
			atomic.StoreInt32(&a.status, st)
			close(a.fin) // before the counter: quiesce() must not see the count without the closed channel
			h.finished.Add(1)
		}()
		var err error
		if we {
			err = h.sem.WaitEmpty(a.ctx)
		} else {
			err = h.sem.Acquire(a.ctx, n)
		}
		if err == nil {
			st = stOK
		} else {
			st = stErr
		}
	}()
	return a
}

// snapshot reads the state without ever blocking for ever on a mutex that a broken semaphore left locked.
func (h *hist) snapshot() (cur, size int64, q []int64, ok bool) {
	deadline := time.Now().Add(hangTimeout)
	for i := 0; ; i++ {
		cur, size, q, ok = semaphore.VerifTrySnapshot(h.sem)
		if ok {
			return
		}
		if i < 200 {
			runtime.Gosched()
		} else {
			time.Sleep(20 * time.Microsecond)
			if time.Now().After(deadline) {
				h.hang = true
				return
			}
		}
	}
}

func dotted(xs []int64) string {
	if len(xs) == 0 {
		return "-"
	}
	p := make([]string, len(xs))
	for i, x := range xs {
		p[i] = strconv.FormatInt(x, 10)
	}
	return strings.Join(p, ".")
}

// quiesce waits until every started Acquire goroutine has either finished, or sits in the queue, or is parked (doomed).
func (h *hist) quiesce() (cur, size int64, q []int64) {
	deadline := time.Now().Add(hangTimeout)
	for i := 0; ; i++ {
		fin := h.finished.Load()
		var ok bool
		cur, size, q, ok = h.snapshot()
		if !ok {
			return
		}
		if fin == h.finished.Load() && fin+int64(len(q))+h.doomedN == h.started {
			return
		}
		if i < 200 {
			runtime.Gosched()
		} else {
			time.Sleep(20 * time.Microsecond)
			if time.Now().After(deadline) {
				h.hang = true
				return
			}
		}
	}
}

func (h *hist) obs(res string) string {
	cur, size, q := h.quiesce()
	if h.hang {
		return "hang"
	}
	var done []int64
	panics := 0
	for t, a := range h.acqs {
		if a.live {
			select {
			case <-a.fin:
				a.live = false
				st := atomic.LoadInt32(&a.status)
				if st == stOK {
					done = append(done, int64(t))
				} else if st == stPanic && a.we {
					// WaitEmpty was admitted (its Acquire returned nil) and its Release panicked
					done = append(done, int64(t))
					panics++
				}
			default:
			}
		}
	}
	sort.Slice(done, func(i, j int) bool { return done[i] < done[j] })
	if panics > 0 {
		res = fmt.Sprintf("%s!%d", res, panics)
	}
	return fmt.Sprintf("%s:%d:%d:%s:%s", res, cur, size, dotted(q), dotted(done))
}

// call runs a non-blocking API call; it reports a panic, and a hang if the call does not return (mutex left locked).
func (h *hist) call(f func()) (panicked bool) {
	done := make(chan bool, 1)
	go func() {
		defer func() { done <- recover() != nil }()
		f()
	}()
	select {
	case p := <-done:
		return p
	case <-time.After(hangTimeout):
		h.hang = true
		return false
	}
}

func (h *hist) op(tok string) (string, bool) {
	if tok == "" {
		return "", false
	}
	c, rest := tok[0], tok[1:]
	if c == 'o' {
		if rest != "" {
			return "", false
		}
		h.call(func() { h.sem.Observe() })
		return h.obs("ok"), true
	}
	if c == 'c' {
		k, err := strconv.ParseUint(rest, 10, 31)
		if err != nil {
			return "", false
		}
		if int(k) >= len(h.acqs) || !h.acqs[k].live {
			return h.obs("noop"), true
		}
		a := h.acqs[k]
		close(a.ctx.done)
		select {
		case <-a.fin:
		case <-time.After(hangTimeout):
			h.hang = true
			return "hang", true
		}
		if a.doomed {
			a.doomed = false
			h.doomedN--
		}
		a.live = false
		switch atomic.LoadInt32(&a.status) {
		case stErr:
			return h.obs("err"), true
		case stOK:
			return h.obs("nil"), true
		}
		return h.obs("panic"), true
	}
	var n int64
	if c == 'w' {
		if rest != "" {
			return "", false
		}
	} else {
		var err error
		n, err = strconv.ParseInt(rest, 10, 64)
		if err != nil {
			return "", false
		}
	}
	switch c {
	case 'a', 'x', 'w':
		_, size0, q0, ok0 := h.snapshot()
		if !ok0 {
			return "hang", true
		}
		a := h.startAcquire(n, c == 'x', c == 'w')
		if c == 'x' {
			select {
			case <-a.fin:
			case <-time.After(hangTimeout):
				h.hang = true
				return "hang", true
			}
		} else {
			select {
			case <-a.fin:
			case <-a.ctx.called:
			case <-time.After(hangTimeout):
				h.hang = true
				return "hang", true
			}
		}
		select {
		case <-a.fin:
			st := atomic.LoadInt32(&a.status)
			if c == 'w' && st == stPanic && size0 >= 0 {
				// WaitEmpty: Acquire(size) was admitted on the fast path, Release(size) panicked; obs reports it
				return h.obs("ok"), true
			}
			if st != stOK {
				a.live = false
			}
			switch st {
			case stOK:
				return h.obs("ok"), true // obs reports the ticket in `done`
			case stErr:
				return h.obs("err"), true
			}
			return h.obs("panic"), true
		default:
		}
		// the goroutine left its first critical section without acquiring: enqueued or parked
		_, _, q1, ok1 := h.snapshot()
		if !ok1 {
			return "hang", true
		}
		if len(q1) == len(q0)+1 {
			return h.obs("blk"), true
		}
		a.doomed = true
		h.doomedN++
		return h.obs("doom"), true
	case 't':
		var ok bool
		if h.call(func() { ok = h.sem.TryAcquire(n) }) {
			return h.obs("panic"), true
		}
		if ok {
			return h.obs("T"), true
		}
		return h.obs("F"), true
	case 'r':
		if h.call(func() { h.sem.Release(n) }) {
			return h.obs("panic"), true
		}
		return h.obs("ok"), true
	case 'f':
		if h.call(func() { h.sem.ForceAcquire(n) }) {
			return h.obs("panic"), true
		}
		return h.obs("ok"), true
	case 's':
		if h.call(func() { h.sem.SetSize(n) }) {
			return h.obs("panic"), true
		}
		return h.obs("ok"), true
	}
	return "", false
}

func runHistory(size0 int64, ops string) string {
	if hangs >= 20 {
		return "hang"
	}
	h := &hist{sem: semaphore.NewWeighted(size0)}
	defer func() {
		if h.hang {
			noteHang()
		}
		for _, a := range h.acqs {
			select {
			case <-a.ctx.done:
			default:
				close(a.ctx.done)
			}
		}
		if !h.hang {
			for _, a := range h.acqs {
				<-a.fin
			}
		}
	}()
	var out []string
	for _, tok := range strings.Split(ops, ",") {
		o, ok := h.op(tok)
		if !ok {
			return "bad-op"
		}
		out = append(out, o)
		if h.hang {
			break
		}
	}
	return strings.Join(out, " ")
}

func handle(line string) (res string) {
	defer func() {
		if r := recover(); r != nil {
			res = "panic"
		}
	}()
	f := strings.Fields(line)
	if len(f) == 0 {
		return "bad-op"
	}
	op, args := f[0], f[1:]
	switch {
	case op == "sema.h" && len(args) == 2:
		n, err := strconv.ParseInt(args[0], 10, 64)
		if err != nil {
			return "bad-op"
		}
		return runHistory(n, args[1])
	case op == "sema.soak" && len(args) == 6:
		var v [6]int64
		for i, a := range args {
			x, err := strconv.ParseInt(a, 10, 64)
			if err != nil {
				return "bad-op"
			}
			v[i] = x
		}
		return soak(uint64(v[0]), int(v[1]), int(v[2]), v[3], v[4], int(v[5]))
	}
	return "bad-op"
}

func main() {
	in := bufio.NewReaderSize(os.Stdin, 1<<20)
	out := bufio.NewWriterSize(os.Stdout, 1<<20)
	defer out.Flush()
	for {
		line, err := in.ReadString('\n')
		if len(line) > 0 {
			fmt.Fprintln(out, handle(strings.TrimRight(line, "\r\n")))
		}
		if err != nil {
			return
		}
	}
}
