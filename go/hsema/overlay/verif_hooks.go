//go:build verif

package semaphore

// VerifSnapshot reads the whole state under the semaphore's own mutex (verification harness only).
func VerifSnapshot(s *Weighted) (cur int64, size int64, queue []int64) {
	s.mu.Lock()
	defer s.mu.Unlock()
	return verifRead(s)
}

// VerifTrySnapshot is VerifSnapshot with TryLock: ok=false if the mutex is held right now
// (a broken semaphore may leave it locked for ever; the harness must not block on it).
func VerifTrySnapshot(s *Weighted) (cur int64, size int64, queue []int64, ok bool) {
	if !s.mu.TryLock() {
		return 0, 0, nil, false
	}
	defer s.mu.Unlock()
	cur, size, queue = verifRead(s)
	return cur, size, queue, true
}

func verifRead(s *Weighted) (cur int64, size int64, queue []int64) {
	for e := s.waiters.Front(); e != nil; e = e.Next() {
		queue = append(queue, e.Value.(waiter).n)
	}
	return s.cur, s.size, queue
}
