//go:build verif

package semaphore

// VerifSnapshot reads the whole state under the semaphore's own mutex (verification harness only).
func VerifSnapshot(s *Weighted) (cur int64, size int64, queue []int64) {
	s.mu.Lock()
	defer s.mu.Unlock()
	for e := s.waiters.Front(); e != nil; e = e.Next() {
		queue = append(queue, e.Value.(waiter).n)
	}
	return s.cur, s.size, queue
}
