//go:build verif

package main

import (
	"context"
	"fmt"
	"runtime"
	"sync"
	"sync/atomic"
	"time"

	"github.com/VKCOM/tl/internal/vkgo/pkg/semaphore"
)

type sm64 struct{ s uint64 }

func (r *sm64) next() uint64 {
	r.s += 0x9E3779B97F4A7C15
	z := r.s
	z = (z ^ (z >> 30)) * 0xBF58476D1CE4E5B9
	z = (z ^ (z >> 27)) * 0x94D049BB133111EB
	return z ^ (z >> 31)
}
func (r *sm64) below(n int64) int64 {
	if n <= 0 {
		return 0
	}
	return int64(r.next() % uint64(n))
}

func spin(k int64) {
	for i := int64(0); i < k; i++ {
		runtime.Gosched()
	}
}

const (
	mForce     = 1 // ForceAcquire allowed
	mResize    = 2 // SetSize allowed
	mCancel    = 4 // contexts may be cancelled while waiting
	mZero      = 8 // weight 0 allowed
	mObserve   = 16
	mWaitEmpty = 32 // WaitEmpty allowed (reads s.size outside the mutex: racy together with mResize)
)

// soak runs `workers` goroutines doing `nops` random operations each on one semaphore; a monitor goroutine
// checks the state invariants under the semaphore's own lock.  Output is `ok` or `fail <reason>`; data races
// are reported by the race detector on stderr.  Nothing here is deterministic: search only.
func soak(seed uint64, workers, nops int, size, maxw int64, mode int) string {
	sem := semaphore.NewWeighted(size)
	var failMu sync.Mutex
	failure := ""
	setFail := func(s string) {
		failMu.Lock()
		if failure == "" {
			failure = s
		}
		failMu.Unlock()
	}
	strict := mode&(mForce|mResize) == 0
	var held atomic.Int64 // weight held through non-forced acquisitions, as seen by the holders
	stop := make(chan struct{})
	var mon sync.WaitGroup
	mon.Add(1)
	go func() {
		defer mon.Done()
		for {
			select {
			case <-stop:
				return
			default:
			}
			cur, sz, q, ok := semaphore.VerifTrySnapshot(sem)
			if !ok {
				runtime.Gosched()
				continue
			}
			if len(q) > 0 && q[0] <= sz-cur {
				if q[0] == 0 && sz == cur {
					setFail("lost-wakeup-zero")
				} else {
					setFail(fmt.Sprintf("lost-wakeup cur=%d size=%d front=%d", cur, sz, q[0]))
				}
			}
			if cur < 0 {
				setFail(fmt.Sprintf("negative cur=%d", cur))
			}
			if strict && cur > sz {
				setFail(fmt.Sprintf("over-admit cur=%d size=%d", cur, sz))
			}
			runtime.Gosched()
		}
	}()
	hold := func(r *sm64, w int64) {
		h := held.Add(w)
		if strict && h > size {
			setFail(fmt.Sprintf("over-admit held=%d size=%d", h, size))
		}
		spin(r.below(4))
		held.Add(-w)
		sem.Release(w)
	}
	var wg sync.WaitGroup
	for wi := 0; wi < workers; wi++ {
		wg.Add(1)
		go func(wi int) {
			defer wg.Done()
			defer func() {
				if r := recover(); r != nil {
					setFail(fmt.Sprintf("panic %v", r))
				}
			}()
			r := &sm64{s: seed*1000003 + uint64(wi)*7919}
			weight := func() int64 {
				lo := int64(1)
				if mode&mZero != 0 {
					lo = 0
				}
				return lo + r.below(maxw-lo+1)
			}
			for i := 0; i < nops; i++ {
				switch k := r.below(10); {
				case k < 5:
					w := weight()
					if strict && mode&mCancel == 0 {
						if w > size {
							w = size
						}
						if err := sem.Acquire(context.Background(), w); err != nil {
							setFail("acquire error without cancellation")
							return
						}
						hold(r, w)
						continue
					}
					ctx, cancel := context.WithCancel(context.Background())
					delay := r.below(40)
					if r.below(4) == 0 {
						delay = 0
					}
					var cw sync.WaitGroup
					cw.Add(1)
					go func() { defer cw.Done(); spin(delay); cancel() }()
					err := sem.Acquire(ctx, w)
					if err == nil {
						hold(r, w)
					}
					cw.Wait()
				case k < 7:
					w := weight()
					if sem.TryAcquire(w) {
						hold(r, w)
					}
				case k == 7 && mode&mForce != 0:
					w := weight()
					sem.ForceAcquire(w)
					spin(r.below(4))
					sem.Release(w)
				case k == 8 && mode&mResize != 0:
					sem.SetSize(r.below(2*size + 1))
				case k == 9 && mode&mObserve != 0:
					sem.Observe()
				case k >= 7 && mode&mWaitEmpty != 0:
					ctx, cancel := context.WithCancel(context.Background())
					delay := r.below(40)
					var cw sync.WaitGroup
					cw.Add(1)
					go func() { defer cw.Done(); spin(delay); cancel() }()
					_ = sem.WaitEmpty(ctx)
					cw.Wait()
				default:
					spin(1)
				}
			}
		}(wi)
	}
	doneCh := make(chan struct{})
	go func() { wg.Wait(); close(doneCh) }()
	select {
	case <-doneCh:
	case <-time.After(60 * time.Second):
		close(stop)
		if cur, sz, q, ok := semaphore.VerifTrySnapshot(sem); ok {
			return fmt.Sprintf("fail hang cur=%d size=%d queue=%v", cur, sz, q)
		}
		return "fail hang with the mutex held"
	}
	close(stop)
	mon.Wait()
	var cur int64
	var q []int64
	ok := false
	for i := 0; i < 100000 && !ok; i++ {
		cur, _, q, ok = semaphore.VerifTrySnapshot(sem)
		if !ok {
			time.Sleep(10 * time.Microsecond)
		}
	}
	if !ok {
		return "fail mutex left locked"
	}
	if failure == "" && (cur != 0 || len(q) != 0) {
		setFail(fmt.Sprintf("final cur=%d queue=%v", cur, q))
	}
	if failure != "" {
		return "fail " + failure
	}
	return "ok"
}
