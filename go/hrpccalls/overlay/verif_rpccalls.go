//go:build verif

// In-package driver of the rpccalls family of the verification framework (overlaid into pkg/rpc at build
// time, nothing here is compiled without -tags verif).  It drives a bare clientConn / workerPool / the
// request-memory semaphore of a Server through histories given as one text line and prints the observable
// bookkeeping after every step, in the same format as the Lean model driver (lean/TLVerif/Rpccalls/Driver.lean).
package rpc

import (
	"context"
	"encoding/binary"
	"errors"
	"fmt"
	"io"
	"net"
	"reflect"
	"runtime"
	"sort"
	"strconv"
	"strings"
	"sync"
	"time"

	"github.com/VKCOM/tl/internal/vkgo/pkg/semaphore"
	"github.com/VKCOM/tl/pkg/rpc/internal/gen/tl"
)

// VerifReqMemSem is the read-only accessor for the server's request-memory semaphore (hook of C39).
func VerifReqMemSem(s *Server) *semaphore.Weighted { return s.reqMemSem }

// VerifWorkerPoolCreated exposes workerPool.Created() of a server.
func VerifWorkerPoolCreated(s *Server) (int, int) { return s.workerPool.Created() }

// number of goroutines parked in (or committed to) c.Wait(); call with c.L held
func verifCondWaiters(c *sync.Cond) int {
	v := reflect.ValueOf(c).Elem().FieldByName("notify")
	return int(uint32(v.FieldByName("wait").Uint()) - uint32(v.FieldByName("notify").Uint()))
}

type verifAddr struct{}

func (verifAddr) Network() string { return "verif" }
func (verifAddr) String() string  { return "verif" }

// net.Conn that records what is written and never blocks
type verifFakeConn struct {
	mu     sync.Mutex
	buf    []byte
	rd     []byte // what Read serves before EOF
	closed bool
	seen   bool // closure already reported
}

func (f *verifFakeConn) Read(b []byte) (int, error) {
	f.mu.Lock()
	defer f.mu.Unlock()
	if len(f.rd) == 0 {
		return 0, io.EOF
	}
	n := copy(b, f.rd)
	f.rd = f.rd[n:]
	return n, nil
}
func (f *verifFakeConn) Write(b []byte) (int, error) {
	f.mu.Lock()
	defer f.mu.Unlock()
	if f.closed {
		return 0, errors.New("use of closed network connection")
	}
	f.buf = append(f.buf, b...)
	return len(b), nil
}
func (f *verifFakeConn) Close() error {
	f.mu.Lock()
	f.closed = true
	f.mu.Unlock()
	return nil
}
func (f *verifFakeConn) LocalAddr() net.Addr                { return verifAddr{} }
func (f *verifFakeConn) RemoteAddr() net.Addr               { return verifAddr{} }
func (f *verifFakeConn) SetDeadline(t time.Time) error      { return nil }
func (f *verifFakeConn) SetReadDeadline(t time.Time) error  { return nil }
func (f *verifFakeConn) SetWriteDeadline(t time.Time) error { return nil }

const verifPayloadTag = 0x1badbeef

// ---------------------------------------------------------------- clientConn

type verifCC struct {
	c        *ClientImpl
	pc       *clientConn
	addr     NetAddr
	resps    []*Response // index = owner-1
	respOwn  map[*Response]int
	reqOwn   map[*Request]int
	cbMode   []bool
	fakes    []*verifFakeConn
	conn     *PacketConn
	fake     *verifFakeConn
	cbEvents []string
	panicked bool
}

func verifNewCC() *verifCC {
	c := NewClient(ClientWithLogf(NoopLogf)).(*ClientImpl)
	k := &verifCC{c: c, addr: NetAddr{Network: "tcp4", Address: "127.0.0.1:1"}, respOwn: map[*Response]int{}, reqOwn: map[*Request]int{}}
	pc := &clientConn{
		client:               c,
		address:              k.addr,
		calls:                map[int64]*Response{},
		closeCC:              make(chan struct{}),
		resetReconnectDelayC: make(chan struct{}, 1),
	}
	pc.writeQCond.L = &pc.mu
	c.conns[k.addr] = pc // as setupCall does, but without starting goConnect: the driver plays its part
	k.pc = pc
	return k
}

func verifResStr(resp *Response, err error) string {
	var rpcErr *Error
	switch {
	case err == nil:
		b := resp.Body
		if len(b) != 12 || binary.LittleEndian.Uint32(b) != verifPayloadTag {
			return "okBADBODY"
		}
		return "ok" + strconv.FormatUint(binary.LittleEndian.Uint64(b[4:]), 10)
	case errors.As(err, &rpcErr):
		return "re" + strconv.Itoa(int(rpcErr.Code))
	case errors.Is(err, ErrClientConnClosedSideEffect):
		return "se"
	case errors.Is(err, ErrClientConnClosedNoSideEffect):
		return "ns"
	case errors.Is(err, context.DeadlineExceeded):
		return "dl"
	}
	return "other"
}

func (k *verifCC) callback(client Client, resp *Response, err error) {
	o := k.respOwn[resp]
	k.cbEvents = append(k.cbEvents, fmt.Sprintf("%09d d%d:1:%d:%s", o, o, resp.queryID, verifResStr(resp, err)))
}

// deliveries of this step, by owner: channel results first polled, callbacks recorded
func (k *verifCC) deliveries() []string {
	evs := k.cbEvents
	k.cbEvents = nil
	for i, r := range k.resps {
		if k.cbMode[i] {
			continue
		}
		for n := 0; n < 2; n++ { // a second result on the same channel would be a double delivery
			select {
			case cr := <-r.singleResult:
				s := verifResStr(cr.resp, cr.err)
				if cr.resp != r {
					s = "WRONGRESP"
				}
				evs = append(evs, fmt.Sprintf("%09d d%d:0:%d:%s", i+1, i+1, r.queryID, s))
			default:
			}
		}
	}
	sort.Strings(evs)
	for i := range evs {
		evs[i] = evs[i][10:]
	}
	return evs
}

func (k *verifCC) closures() []string {
	var evs []string
	for _, f := range k.fakes {
		f.mu.Lock()
		if f.closed && !f.seen {
			f.seen = true
			evs = append(evs, "cl")
		}
		f.mu.Unlock()
	}
	return evs
}

func (k *verifCC) state() string {
	pc := k.pc
	pc.mu.Lock()
	defer pc.mu.Unlock()
	keys := make([]int64, 0, len(pc.calls))
	for q := range pc.calls {
		keys = append(keys, q)
	}
	sort.Slice(keys, func(i, j int) bool { return keys[i] < keys[j] })
	var cs, ws []string
	for _, q := range keys {
		cctx := pc.calls[q]
		us := "s"
		if cctx.req != nil {
			us = "u"
		}
		cs = append(cs, fmt.Sprintf("%d.%d.%s", q, k.respOwn[cctx], us))
	}
	for _, w := range pc.writeQ {
		if w.req != nil {
			ws = append(ws, fmt.Sprintf("r%d.%d", k.reqOwn[w.req], w.queryID))
		} else {
			ws = append(ws, fmt.Sprintf("c%d", w.queryID))
		}
	}
	b := func(x bool) string {
		if x {
			return "1"
		}
		return "0"
	}
	return fmt.Sprintf("c=%s;w=%s;n=%d;f=%s%s%s%s%s%s", strings.Join(cs, "+"), strings.Join(ws, "+"), pc.inFlight,
		b(pc.isShutdown), b(pc.writeClientWantsFin), b(pc.writeBuiltin), b(pc.conn != nil), b(pc.waitingToReconnect), b(pc.closeCC != nil))
}

// Go's map order decides the order of the re-queued requests; normalise to ascending query id (as the model does)
func (k *verifCC) normaliseWriteQ() {
	pc := k.pc
	pc.mu.Lock()
	sort.SliceStable(pc.writeQ, func(i, j int) bool { return pc.writeQ[i].queryID < pc.writeQ[j].queryID })
	pc.mu.Unlock()
}

func (k *verifCC) parsePackets(f *verifFakeConn) []string {
	f.mu.Lock()
	b := f.buf
	f.buf = nil
	f.mu.Unlock()
	var evs []string
	for len(b) >= 16 {
		l := int(binary.LittleEndian.Uint32(b))
		if l < 16 || l > len(b) {
			evs = append(evs, "pBADLEN")
			break
		}
		tip := binary.LittleEndian.Uint32(b[8:])
		body := b[12 : l-4]
		switch {
		case tip == tl.RpcInvokeReqHeader{}.TLTag() && len(body) >= 8:
			evs = append(evs, "pr"+strconv.FormatInt(int64(binary.LittleEndian.Uint64(body)), 10))
		case tip == tl.RpcCancelReq{}.TLTag() && len(body) == 8:
			evs = append(evs, "pc"+strconv.FormatInt(int64(binary.LittleEndian.Uint64(body)), 10))
		case tip == tl.RpcClientWantsFin{}.TLTag():
			evs = append(evs, "pf")
		default:
			evs = append(evs, fmt.Sprintf("p?%08x", tip))
		}
		b = b[l:]
	}
	if len(b) != 0 && (len(evs) == 0 || evs[len(evs)-1] != "pBADLEN") {
		evs = append(evs, "pTRAIL")
	}
	return evs
}

// run the real sendLoop until it parks in writeQCond.Wait(), then make it return
func (k *verifCC) sendStep() []string {
	pc := k.pc
	if k.conn == nil {
		return []string{"ret0"}
	}
	conn, fake := k.conn, k.fake
	done := make(chan any, 1)
	go func() {
		defer func() { done <- recover() }()
		_ = pc.sendLoop(conn)
	}()
	finished := false
	for !finished {
		select {
		case r := <-done:
			if r != nil {
				k.panicked = true
				return nil
			}
			finished = true
			continue
		default:
		}
		if pc.mu.TryLock() {
			w := verifCondWaiters(&pc.writeQCond)
			pc.mu.Unlock()
			if w == 1 {
				break
			}
		}
		runtime.Gosched()
	}
	if finished { // pc.conn == nil: sendLoop returned at once
		return []string{"ret0"}
	}
	pc.mu.Lock()
	saved := pc.conn
	pc.conn = nil
	pc.mu.Unlock()
	pc.writeQCond.Signal()
	if r := <-done; r != nil {
		k.panicked = true
		return nil
	}
	pc.mu.Lock()
	pc.conn = saved
	pc.mu.Unlock()
	_ = conn.FlushUnlocked()
	return k.parsePackets(fake)
}

func (k *verifCC) step(op string) (evs []string) {
	defer func() {
		if r := recover(); r != nil {
			k.panicked = true
		}
	}()
	pc := k.pc
	runCbs := func(cbs []callResult) {
		for _, f := range cbs {
			f.resp.cb(pc.client, f.resp, f.err)
		}
	}
	packet := func(tip uint32, body []byte) {
		var reuse []byte
		_, fcb, _, _, err := pc.handlePacket(tip, &reuse, body)
		if err != nil {
			evs = append(evs, "perr")
		}
		if fcb.resp != nil {
			fcb.resp.cb(pc.client, fcb.resp, fcb.err)
		}
	}
	switch {
	case op == "F":
		packet(tl.RpcServerWantsFin{}.TLTag(), nil)
	case op == "U":
		packet(0x0badf00d, []byte{1, 2, 3, 4})
	case op == "B":
		pc.mu.Lock()
		pc.writeBuiltin = true // receiveLoop, on a builtin packet
		pc.mu.Unlock()
	case op == "S":
		evs = append(evs, k.sendStep()...)
	case op == "C":
		fake := &verifFakeConn{}
		conn := NewPacketConn(fake, 4096, 4096)
		if pc.setClientConn(conn) {
			k.fakes = append(k.fakes, fake)
			k.conn, k.fake = conn, fake
			evs = append(evs, "ret1")
		} else {
			evs = append(evs, "ret0")
		}
	case op == "D":
		pc.dropClientConn()
	case op == "d0" || op == "d1":
		cbs, cont := pc.continueRunningImpl(op == "d1")
		k.normaliseWriteQ()
		runCbs(cbs)
		if cont {
			evs = append(evs, "ret1")
		} else {
			evs = append(evs, "ret0")
		}
	case op == "G":
		pc.mu.Lock() // top of the goConnect loop
		var cbs []callResult
		closed := pc.closeCC == nil
		if closed {
			cbs = pc.massCancelRequestsLocked()
		}
		pc.mu.Unlock()
		if closed {
			k.normaliseWriteQ()
		}
		runCbs(cbs)
	case op == "X":
		pc.close()
	case strings.HasPrefix(op, "s"):
		f := strings.Split(op[1:], ":")
		q, err := strconv.ParseInt(f[0], 10, 63)
		if err != nil || len(f) != 2 {
			panic("bad op")
		}
		fl := f[1]
		owner := len(k.resps) + 1
		req := k.c.GetRequest()
		req.queryID = q
		req.startTime = time.Now()
		req.FailIfNoConnection = strings.Contains(fl, "f")
		req.Body = binary.LittleEndian.AppendUint32(req.Body, 0x0f00ba11)
		req.Body = binary.LittleEndian.AppendUint64(req.Body, uint64(owner))
		cb := strings.Contains(fl, "c")
		var resp *Response
		var err2 error
		// the driver must know the objects before setupCall publishes them
		if cb {
			resp = k.c.getResponse(req)
			resp.cb = k.callback
		} else {
			resp = k.c.getResponse(req)
			resp.result = resp.singleResult
		}
		k.resps = append(k.resps, resp)
		k.cbMode = append(k.cbMode, cb)
		k.respOwn[resp] = owner
		k.reqOwn[req] = owner
		ctx := context.Background()
		var cancel context.CancelFunc
		if strings.Contains(fl, "p") || strings.Contains(fl, "u") {
			ctx, cancel = context.WithDeadline(ctx, time.Now().Add(time.Hour))
			defer cancel()
		}
		_, _, _, err2 = k.c.setupCall(ctx, k.addr, req, resp)
		if err2 == nil && strings.Contains(fl, "p") {
			pc.mu.Lock()
			resp.deadline = time.Unix(1, 0) // the deadline has passed for every later time.Now()
			pc.mu.Unlock()
		}
		switch {
		case err2 == nil:
			evs = append(evs, "ret0")
		case errors.Is(err2, ErrClientClosed):
			evs = append(evs, "ret1")
		case errors.Is(err2, ErrClientConnClosedNoSideEffect):
			evs = append(evs, "ret2")
		default:
			evs = append(evs, "ret9")
		}
	case strings.HasPrefix(op, "x"):
		q, err := strconv.ParseInt(op[1:], 10, 63)
		if err != nil {
			panic("bad op")
		}
		cctx := pc.cancelCall(q)
		if cctx == nil {
			evs = append(evs, "ret0")
		} else {
			us := "s"
			if cctx.req != nil {
				us = "u"
			}
			evs = append(evs, fmt.Sprintf("x%d:%d:%s", k.respOwn[cctx], cctx.queryID, us))
		}
	case strings.HasPrefix(op, "r") || strings.HasPrefix(op, "e"):
		f := strings.Split(op[1:], ":")
		if len(f) != 2 {
			panic("bad op")
		}
		q, err := strconv.ParseInt(f[0], 10, 63)
		p, err1 := strconv.ParseUint(f[1], 10, 63)
		if err != nil || err1 != nil {
			panic("bad op")
		}
		if op[0] == 'r' {
			h := tl.RpcReqResultHeader{QueryId: q}
			body := h.WriteTL1(nil)
			body = binary.LittleEndian.AppendUint32(body, verifPayloadTag)
			body = binary.LittleEndian.AppendUint64(body, p)
			packet(tl.RpcReqResultHeader{}.TLTag(), body)
		} else {
			h := tl.RpcReqResultError{QueryId: q, ErrorCode: int32(p), Error: "verif"}
			packet(tl.RpcReqResultError{}.TLTag(), h.WriteTL1(nil))
		}
	default:
		panic("bad op")
	}
	return evs
}

func verifRunCC(ops []string) string {
	k := verifNewCC()
	var out []string
	for _, op := range ops {
		var evs []string
		if op == "W" { // one turn of the goConnect loop
			pc := k.pc
			pc.mu.Lock()
			has := pc.conn != nil
			pc.mu.Unlock()
			sub := []string{"d1", "C", "S"}
			if has {
				sub = []string{"S"}
			}
			for _, o := range sub {
				evs = append(evs, k.step(o)...)
				if k.panicked {
					break
				}
			}
		} else {
			evs = k.step(op)
		}
		if k.panicked {
			out = append(out, "panic")
			break
		}
		evs = append(evs, k.closures()...)
		evs = append(evs, k.deliveries()...)
		out = append(out, strings.Join(evs, ",")+"#"+k.state())
	}
	return strings.Join(out, "|")
}

// ---------------------------------------------------------------- workerPool

type verifGetRes struct {
	w  *worker
	ok bool
}

type verifWP struct {
	t        *workerPool
	wg       *semaphore.Weighted
	workers  []*worker
	id       map[*worker]int
	closed   []bool
	busy     map[int]bool
	results  chan verifGetRes
	spawned  int
	returned int
}

func (k *verifWP) quiesce() []verifGetRes {
	var res []verifGetRes
	for {
		drained := false
		for !drained {
			select {
			case r := <-k.results:
				res = append(res, r)
				k.returned++
			default:
				drained = true
			}
		}
		if k.t.mu.TryLock() {
			w := verifCondWaiters(&k.t.cond)
			k.t.mu.Unlock()
			if k.returned+w == k.spawned && len(k.results) == 0 {
				return res
			}
		}
		runtime.Gosched()
	}
}

func (k *verifWP) events(res []verifGetRes) []string {
	var evs []string
	for _, r := range res {
		switch {
		case !r.ok:
			evs = append(evs, "gx")
		case r.w != nil:
			evs = append(evs, fmt.Sprintf("g%d", k.id[r.w]))
			k.busy[k.id[r.w]] = true
		default: // as Server.acquireWorker: the caller creates the worker
			w := &worker{workerPool: k.t, ch: make(chan workerWork, 1)}
			k.id[w] = len(k.workers)
			k.workers = append(k.workers, w)
			k.closed = append(k.closed, false)
			k.busy[k.id[w]] = true
			evs = append(evs, fmt.Sprintf("g%dn", k.id[w]))
		}
	}
	return evs
}

func (k *verifWP) chanClosures() []string {
	var evs []string
	for i, w := range k.workers {
		if k.closed[i] {
			continue
		}
		select {
		case _, ok := <-w.ch:
			if !ok {
				k.closed[i] = true
				evs = append(evs, fmt.Sprintf("cc%d", i))
			}
		default:
		}
	}
	return evs
}

func (k *verifWP) state() string {
	t := k.t
	t.mu.Lock()
	defer t.mu.Unlock()
	var fs []string
	for _, w := range t.free {
		fs = append(fs, strconv.Itoa(k.id[w]))
	}
	x := "0"
	if t.closed {
		x = "1"
	}
	return fmt.Sprintf("f=%s;c=%d;w=%d;x=%s", strings.Join(fs, "+"), t.created, verifCondWaiters(&t.cond), x)
}

func (k *verifWP) setExpiry(expired bool) {
	t := k.t
	t.mu.Lock()
	if len(t.free) != 0 {
		if expired {
			t.free[0].gcTime = time.Unix(1, 0)
		} else {
			t.free[0].gcTime = time.Now().Add(time.Hour)
		}
	}
	t.mu.Unlock()
}

func verifRunWP(create int, ops []string) string {
	k := &verifWP{id: map[*worker]int{}, busy: map[int]bool{}, results: make(chan verifGetRes, 1024)}
	beforeWaits := 0
	k.t = workerPoolNew(create, func() { beforeWaits++ })
	k.wg = semaphore.NewWeighted(1 << 40)
	_, total := k.t.Created()
	out := []string{fmt.Sprintf("create=%d", total)}
	defer func() { // release parked goroutines
		k.t.Close()
		k.quiesce()
	}()
	for _, op := range ops {
		var evs []string
		bad := false
		func() {
			defer func() {
				if r := recover(); r != nil {
					bad = true
				}
			}()
			switch {
			case op == "g":
				k.spawned++
				go func() {
					w, ok := k.t.Get(k.wg)
					k.results <- verifGetRes{w, ok}
				}()
				res := k.quiesce()
				if len(res) == 0 {
					evs = append(evs, "b")
				}
				evs = append(evs, k.events(res)...)
			case op == "k":
				k.t.cond.Signal() // a wake-up without cause
				evs = append(evs, k.events(k.quiesce())...)
			case op == "X":
				k.t.Close()
				evs = append(evs, k.events(k.quiesce())...)
			case op == "c0" || op == "c1":
				k.setExpiry(op == "c1")
				k.t.GC(time.Now())
			case strings.HasPrefix(op, "p"):
				f := strings.Split(op[1:], ":")
				w, err := strconv.Atoi(f[0])
				if err != nil || len(f) != 2 || (f[1] != "0" && f[1] != "1") || !k.busy[w] {
					bad = true
					return
				}
				k.setExpiry(f[1] == "1")
				delete(k.busy, w)
				k.t.Put(k.workers[w])
				evs = append(evs, k.events(k.quiesce())...)
			default:
				bad = true
			}
		}()
		if bad {
			out = append(out, "bad")
			break
		}
		evs = append(evs, k.chanClosures()...)
		out = append(out, strings.Join(evs, ",")+"#"+k.state())
	}
	return strings.Join(out, "|")
}

// ---------------------------------------------------------------- request memory

type verifAcqRes struct {
	id  int
	err error
}

func verifRunRM(size int64, buf int, ops []string) string {
	logs := 0
	results := make(chan verifAcqRes, 1024)
	s := &Server{}
	s.opts.Logf = func(format string, args ...any) {
		if strings.HasPrefix(format, "rpc: waiting to acquire request memory") {
			logs++
		}
	}
	s.opts.DebugRPC = true // rareLog then logs every time: a log line = TryAcquire failed
	s.opts.RequestBufSize = buf
	s.reqMemSem = semaphore.NewWeighted(size)
	// what the real receive loop needs besides the request semaphore ('k' ops run Server.receiveLoop on a hand-made
	// serverConnTCP over an in-memory conn; MaxWorkers = 0: the handler runs on the receive goroutine)
	s.respMemSem = semaphore.NewWeighted(1 << 40)
	s.opts.ResponseBufSize, s.opts.ResponseMemEstimate = 512, 512
	s.opts.DisableSpecialHandlers = true
	s.hctxPool.New = func() any { return &HandlerContext{} }
	s.reqBufPool.New = func() any { var b []byte; return &b }
	s.respBufPool.New = func() any { var b []byte; return &b }
	hold := map[int64]chan struct{}{} // query id -> closed to let the handler return
	conns := map[int]*serverConnTCP{}
	loopDone := map[int]chan struct{}{}
	var enteredMu sync.Mutex
	entered := map[int64]bool{}
	s.opts.Handler = func(ctx context.Context, hctx *HandlerContext) error {
		enteredMu.Lock()
		entered[hctx.queryID] = true
		ch := hold[hctx.queryID]
		enteredMu.Unlock()
		results <- verifAcqRes{int(hctx.queryID), nil} // admitted: the request holds its memory while the handler runs
		<-ch
		hctx.Response = append(hctx.Response, 1, 2, 3, 4)
		return nil
	}
	sem := VerifReqMemSem(s)
	cancels := map[int]context.CancelFunc{}
	taken := map[int]int{}    // admitted, not released
	queued := []int{}         // ids in queue order
	queuedN := map[int]int{}  // their weights
	spawned, returned := 0, 0
	rmPanicked := false
	defer func() {
		for _, c := range cancels {
			c()
		}
		enteredMu.Lock()
		for _, ch := range hold {
			select {
			case <-ch:
			default:
				close(ch)
			}
		}
		enteredMu.Unlock()
		for _, sc := range conns {
			sc.close(nil)
		}
	}()
	quiesce := func() []verifAcqRes {
		var res []verifAcqRes
		for {
			drained := false
			for !drained {
				select {
				case r := <-results:
					res = append(res, r)
					returned++
					if r.err != nil && r.err.Error() == "PANIC" {
						rmPanicked = true
					}
				default:
					drained = true
				}
			}
			if rmPanicked {
				return res
			}
			if returned+len(semaphore.VerifRpccallsWaiters(sem)) == spawned && len(results) == 0 {
				return res
			}
			runtime.Gosched()
		}
	}
	// results of goroutines other than `self`, in queue order
	others := func(res []verifAcqRes, self int) []string {
		var evs []string
		got := map[int]error{}
		for _, r := range res {
			if r.id != self {
				got[r.id] = r.err
			}
		}
		var rest []int
		for _, id := range queued {
			err, ok := got[id]
			switch {
			case !ok:
				rest = append(rest, id)
			case err == nil:
				evs = append(evs, fmt.Sprintf("w%d", id))
				taken[id] = queuedN[id]
			default:
				evs = append(evs, fmt.Sprintf("x%d", id))
			}
		}
		queued = rest
		return evs
	}
	state := func() string {
		cur, sz := sem.Observe()
		ws := semaphore.VerifRpccallsWaiters(sem)
		var qs []string
		for i, n := range ws {
			id := -1
			if i < len(queued) {
				id = queued[i]
			}
			qs = append(qs, fmt.Sprintf("%d.%d", id, n))
		}
		return fmt.Sprintf("cur=%d;size=%d;q=%s", cur, sz, strings.Join(qs, "+"))
	}
	var out []string
	for _, op := range ops {
		var evs []string
		bad := false
		switch {
		case strings.HasPrefix(op, "a") || strings.HasPrefix(op, "k"):
			isK := op[0] == 'k'
			f := strings.Split(op[1:], ":")
			if len(f) != 2 {
				bad = true
				break
			}
			id, err := strconv.Atoi(f[0])
			body, err1 := strconv.Atoi(f[1])
			if err != nil || err1 != nil {
				bad = true
				break
			}
			if isK && (body%4 != 0 || body < 12 || body > 1<<20) {
				bad = true
				break
			}
			take := s.requestBufTake(body)
			logs0 := logs
			spawned++
			if isK {
				// the request arrives as a packet on its own connection; the real receive loop accounts for it
				take = s.requestBufTake(body + packetOverhead)
				wr := &verifFakeConn{}
				wpc := NewPacketConn(wr, 4096, 4096)
				wpc.writeSeqNum = 0 // as after the handshake
				pb := make([]byte, body)
				binary.LittleEndian.PutUint64(pb, uint64(id))
				binary.LittleEndian.PutUint32(pb[8:], 0x7e57ca11)
				if err := wpc.WritePacket(tl.RpcInvokeReqHeader{}.TLTag(), pb, 0); err != nil {
					bad = true
					break
				}
				closeCtx, cancelCause := context.WithCancelCause(context.Background())
				sc := &serverConnTCP{
					serverConnCommon: serverConnCommon{server: s, closeCtx: closeCtx, cancelCloseCtx: cancelCause, longpolls: map[int64]longpollHctx{}},
					listenAddr:       verifAddr{},
					conn:             NewPacketConn(&verifFakeConn{rd: wr.buf}, 4096, 4096),
				}
				sc.conn.readSeqNum = 0
				sc.writeQCond.L = &sc.mu
				sc.closeWaitCond.L = &sc.mu
				conns[id] = sc
				cancels[id] = func() { sc.close(errors.New("verif: peer went away")) }
				enteredMu.Lock()
				hold[int64(id)] = make(chan struct{})
				enteredMu.Unlock()
				done := make(chan struct{})
				loopDone[id] = done
				if int64(take) > size {
					cancels[id]() // Acquire would wait for the close context only
				}
				go func() {
					defer close(done)
					defer func() {
						if r := recover(); r != nil {
							results <- verifAcqRes{id, errors.New("PANIC")}
						}
					}()
					readErrCC := make(chan error, 1)
					s.receiveLoop(sc, readErrCC)
					enteredMu.Lock()
					ent := entered[int64(id)]
					enteredMu.Unlock()
					if !ent {
						results <- verifAcqRes{id, errors.New("closed while waiting for request memory")}
					}
				}()
			} else {
				ctx, cancel := context.WithCancel(context.Background())
				cancels[id] = cancel
				if int64(take) > size {
					cancel() // Acquire would wait for the context only: show that it is not admitted
				}
				go func() {
					err := s.acquireRequestSema(ctx, take)
					results <- verifAcqRes{id, err}
				}()
			}
			res := quiesce()
			self := -1
			var selfErr error
			for _, r := range res {
				if r.id == id {
					self = id
					selfErr = r.err
				}
			}
			if logs != logs0 {
				evs = append(evs, fmt.Sprintf("t%d", id))
			}
			switch {
			case self == id && selfErr == nil:
				evs = append(evs, fmt.Sprintf("a%d", id))
				taken[id] = take
			case self == id:
				evs = append(evs, fmt.Sprintf("z%d", id))
			default:
				evs = append(evs, fmt.Sprintf("q%d", id))
				queued = append(queued, id)
				queuedN[id] = take
			}
			evs = append(evs, others(res, id)...)
		case strings.HasPrefix(op, "r"):
			id, err := strconv.Atoi(op[1:])
			if err != nil {
				bad = true
				break
			}
			if n, ok := taken[id]; ok {
				delete(taken, id)
				if done, isK := loopDone[id]; isK {
					enteredMu.Lock()
					close(hold[int64(id)]) // the handler returns; SendResponse releases the request memory
					enteredMu.Unlock()
					<-done
				} else {
					s.releaseRequestBuf(n, nil)
				}
				evs = append(evs, fmt.Sprintf("r%d", id))
				evs = append(evs, others(quiesce(), -1)...)
			}
		case strings.HasPrefix(op, "x"):
			id, err := strconv.Atoi(op[1:])
			if err != nil {
				bad = true
				break
			}
			isQueued := false
			for _, q := range queued {
				if q == id {
					isQueued = true
				}
			}
			if isQueued {
				cancels[id]()
				var res []verifAcqRes
				for seen := false; !seen; { // the cancelled Acquire returns (with the error, or nil if it was admitted meanwhile)
					r := <-results
					returned++
					res = append(res, r)
					seen = r.id == id
					if r.err != nil && r.err.Error() == "PANIC" {
						rmPanicked = true
					}
				}
				if done, isK := loopDone[id]; isK {
					<-done // the receive loop has released the handler context of the request that never got memory
				}
				res = append(res, quiesce()...)
				var first, rest []string
				for _, e := range others(res, -1) {
					if e == fmt.Sprintf("x%d", id) {
						first = append(first, e)
					} else {
						rest = append(rest, e)
					}
				}
				evs = append(append(evs, first...), rest...)
			}
		default:
			bad = true
		}
		if bad {
			out = append(out, "bad")
			break
		}
		if rmPanicked {
			out = append(out, "panic")
			break
		}
		out = append(out, strings.Join(evs, ",")+"#"+state())
	}
	return strings.Join(out, "|")
}

func verifSplitOps(s string) []string {
	if s == "-" {
		return nil
	}
	return strings.Split(s, ",")
}

// VerifRpccallsHandle runs one case line of the rpccalls family.
func VerifRpccallsHandle(line string) (res string) {
	f := strings.Fields(line)
	if len(f) == 0 {
		return "bad-op"
	}
	switch {
	case f[0] == "rpccalls.cc" && len(f) == 2:
		ops := verifSplitOps(f[1])
		for _, op := range ops { // syntax check first, as the model driver does
			if !verifValidCCOp(op) {
				return "bad-op"
			}
		}
		return verifRunCC(ops)
	case f[0] == "rpccalls.wp" && len(f) == 3:
		c, err := strconv.ParseInt(f[1], 10, 32)
		if err != nil {
			return "bad-op"
		}
		return verifRunWP(int(c), verifSplitOps(f[2]))
	case f[0] == "rpccalls.rm" && len(f) == 4:
		sz, err := strconv.ParseInt(f[1], 10, 62)
		b, err1 := strconv.ParseInt(f[2], 10, 62)
		if err != nil || err1 != nil || sz < 0 || b < 0 {
			return "bad-op"
		}
		return verifRunRM(sz, int(b), verifSplitOps(f[3]))
	case f[0] == "rpccalls.srv" && len(f) == 4:
		l, err := strconv.ParseInt(f[1], 10, 40)
		b, err1 := strconv.ParseInt(f[2], 10, 40)
		w, err2 := strconv.ParseInt(f[3], 10, 40)
		if err != nil || err1 != nil || err2 != nil {
			return "bad-op"
		}
		s := NewServer(ServerWithLogf(NoopLogf), ServerWithRequestMemoryLimit(int(l)), ServerWithRequestBufSize(int(b)), ServerWithMaxWorkers(int(w)))
		_, size := VerifReqMemSem(s).Observe()
		_, create := VerifWorkerPoolCreated(s)
		out := fmt.Sprintf("size=%d;buf=%d;maxworkers=%d;create=%d", size, s.opts.RequestBufSize, s.opts.MaxWorkers, create)
		_ = s.Close()
		return out
	}
	return "bad-op"
}

func verifIsNat(s string) bool {
	if s == "" || len(s) > 18 {
		return false
	}
	for _, c := range s {
		if c < '0' || c > '9' {
			return false
		}
	}
	return true
}

func verifValidCCOp(op string) bool {
	switch op {
	case "F", "U", "B", "S", "C", "D", "G", "X", "W", "d0", "d1":
		return true
	}
	if op == "" {
		return false
	}
	f := strings.Split(op[1:], ":")
	switch op[0] {
	case 's':
		if len(f) != 2 || !verifIsNat(f[0]) || f[1] == "" {
			return false
		}
		if f[1] == "-" {
			return true
		}
		for _, c := range f[1] {
			if !strings.ContainsRune("fpuc", c) {
				return false
			}
		}
		return true
	case 'x':
		return len(f) == 1 && verifIsNat(f[0])
	case 'r', 'e':
		return len(f) == 2 && verifIsNat(f[0]) && verifIsNat(f[1])
	}
	return false
}
