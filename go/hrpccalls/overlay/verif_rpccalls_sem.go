//go:build verif

package semaphore

// VerifRpccallsWaiters returns the weights of the queued waiters, front first (read-only, under the lock).
// Overlaid into internal/vkgo/pkg/semaphore by the rpccalls family of the verification framework.
func VerifRpccallsWaiters(s *Weighted) []int64 {
	s.mu.Lock()
	defer s.mu.Unlock()
	var res []int64
	for e := s.waiters.Front(); e != nil; e = e.Next() {
		res = append(res, e.Value.(waiter).n)
	}
	return res
}
