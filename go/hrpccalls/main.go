//go:build verif

// Harness for the `rpccalls` family (in-package part): every stdin line is one history of a bare
// clientConn / workerPool / request-memory semaphore; the work is done by the file overlaid into pkg/rpc
// (go/hrpccalls/overlay/verif_rpccalls.go).  One result line per input line.
package main

import (
	"bufio"
	"os"
	"runtime"

	"github.com/VKCOM/tl/pkg/rpc"
)

func main() {
	// the driver hands control to the goroutine under test with Gosched and waits for it to park:
	// one P makes that a direct switch (and keeps 16 parallel harness processes from spinning on each other)
	runtime.GOMAXPROCS(1)
	in := bufio.NewReaderSize(os.Stdin, 1<<20)
	out := bufio.NewWriterSize(os.Stdout, 1<<20)
	defer out.Flush()
	sc := bufio.NewScanner(in)
	sc.Buffer(make([]byte, 1<<20), 1<<26)
	for sc.Scan() {
		out.WriteString(rpc.VerifRpccallsHandle(sc.Text()))
		out.WriteByte('\n')
	}
}
